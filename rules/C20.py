"""C20 - image and trace writers emit decodable files containing exactly the input.

Decided statically (DESIGN.md section 5, C20):
  R-C20-1  for every instantiation of writeImage<COMP_T,N,PIXEL_T,P,FLIP> found in the facts: the loops run
           y in [0,sizeY), x in [0,sizeX), c in [0,N); the source index, with the template arguments
           substituted, decomposes into row(y)*sizeX pixels + P*x + channel(c) components with
           0 <= channel(c) < P for all c (so only the width x height pixels given are read), sizeof(PIXEL_T) ==
           P*sizeof(COMP_T); the destination index N*x+c enumerates the N*sizeX elements of the row buffer
           exactly once and fwrite emits exactly N*sizeX*sizeof(COMP_T) bytes per row.
  R-C20-2  table agreement per format wrapper: magic number <-> component type / count, two integer
           conversions fed (sizeX,sizeY), maxval / negative scale line, rows flipped exactly for PPM/PGM,
           arguments handed through unchanged.
  R-C20-3  JSON skeleton of saveLog: the text emitted on every CFG path (literals tokenised, values abstracted)
           is `[` object (`,` object)* `]`; in particular the character overwritten by the final seekp(-1)
           is a `,` on every path.
  R-C20-4  every record call appends one event of its own type to getCurrentEventList(); a new chunk is
           started exactly when there is none or the last one holds THREAD_EVENT_CHUNK_SIZE events; saveLog
           walks all threads, all chunks, all events in order while holding the registry mutex.
  R-C20-5  purity of the image writers: no mutable object with static / thread storage duration in writeImage, the
           format wrappers and their helpers.
  R-C20-6  the 64-bit counter value reaches the log through an integer insertion (no conversion to a floating type).
  R-C20-7  the name pointers stored in events point into address-stable string storage.
  R-C20-8  the utilisation divisor is a wall-clock interval at clock resolution (not truncated to whole ticks) or guarded.
  R-C20-9  no tracing function called while threadTraceMutex is held locks it again.
  R-C20-10 the log file is opened in a truncating mode.
  R-C20-11 namespace-scope state of the tracing unit is written only under a lock (no unsynchronised lazy creation).
Not decided: equality of decoded pixel values (run-time contents), JSON escaping of user supplied names,
nesting of begin/end pairs in the recorded history, what fopen/fwrite/ofstream do.
"""
import ast
import re

from rkstatic.x_linform import Poly, Evaluator, show, show_rel, negate, upper_bound, small_model, atom_name

LEVEL = 'other'
EXPLANATION = (
    "For each writeImage instantiation the index expressions are brought to polynomial normal form with the "
    "template arguments substituted and evaluated over the loop ranges: the channel offset must stay inside one "
    "pixel, the row selector inside the image, the output index must enumerate the row buffer; the format "
    "wrappers are checked against the Netpbm/PFM table. For saveLog a finite automaton over the JSON skeleton "
    "(brackets, braces, commas, string state, emitted length 0/1/more) is run over the CFG to a fixpoint, so "
    "every path, including the empty log and any number of threads/chunks/events, yields a well-formed array; "
    "recording is checked to append to the current chunk and to open chunks at exactly the chunk size. "
    "Not decided: pixel value equality after decoding, escaping of user strings, begin/end nesting of the history.")

UTIL = 'rkcommon::utility::'
TR = 'rkcommon::tracing::'
IMG_H = 'rkcommon/utility/SaveImage.h'

BUILTIN_SIZE = {'unsigned char': 1, 'char': 1, 'signed char': 1, 'unsigned short': 2, 'short': 2, 'unsigned int': 4,
                'int': 4, 'float': 4, 'double': 8, 'unsigned long': 8, 'long': 8}


class Undecided(Exception):
    pass


def type_size(tu, t):
    t = t.strip()
    if t in BUILTIN_SIZE:
        return BUILTIN_SIZE[t]
    r = tu.records_by_type.get(t)
    if r is None:
        r = tu.records_by_type.get(t.replace(', void>', '>'))
    return r.get('size') if r else None


# =====================================================================================================
#  R-C20-1: index arithmetic of every writeImage instantiation
# =====================================================================================================
class ImgFn:
    def __init__(self, tu, f):
        self.tu = tu
        self.f = f
        self.params = {p['id']: p for p in f['params']}
        self.loops = {}        # decl id -> dict(name, atom, bound Poly, node, depth)
        self.locals = {}       # decl id -> ('ptr', base, offsetPoly, unit) | Poly
        self.mins = {}         # min atom -> (Poly, Poly)
        self.bind = {}         # parameter of an inlined helper -> value of the argument
        self.vecs = {}         # local std::vector used as a buffer: decl id -> (name, element size)
        self.alts = {}         # '@buffer' -> (condition [(Poly, op)], bytes of the heap block used when it holds)
        self.depth = 0
        self.carry = {}        # carry atom -> dict(var, loop, amount)
        self.decl_stack = {}   # local pointer -> loops enclosing its declaration
        self.virtual = set()   # ids of the quotient / remainder loops a flat loop is split into
        self.order = []

    def atom_of(self, did):
        if did in self.bind:
            v = self.bind[did]
            return v if isinstance(v, Poly) else None
        if did in self.loops:
            if 'value' in self.loops[did]:
                return self.loops[did]['value']          # descending loop: value in terms of the iteration number
            return Poly.atom(('sym', self.loops[did]['name']))
        p = self.params.get(did)
        if p is not None and not p['ct'].rstrip().endswith('*') and not p['ct'].rstrip().endswith('&'):
            return Poly.atom(('param', p['name']))
        v = self.locals.get(did)
        return v if isinstance(v, Poly) else None

    def ev(self):
        return Evaluator(self.tu, lambda n, did: self.atom_of(did), None, self.call_value, divmod=self.divmod)

    def divmod(self, n, a, b, op):
        """`i / K` and `i % K` of the variable of a flat loop `for (i = 0; i < K * M; i++)`, K a positive constant: the loop
        visits every (q, r) in [0, M) x [0, K) exactly once, as i = K*q + r, and since i >= 0 the quotient is q and the
        remainder r.  The loop is recorded as split; what was evaluated with `i` itself is rewritten afterwards"""
        K = b.const_value()
        if K is None or K < 1:
            return None
        if a.const_value() is not None and a.const_value() >= 0:
            return Poly.const(a.const_value() // K if op == '/' else a.const_value() % K)
        for vid, l in self.loops.items():
            if a != Poly.atom(('sym', l['name'])) or 'value' in l or vid in self.virtual:
                continue
            cnt = l.get('count')
            if l.get('step', 1) != 1 or cnt is None or l.get('inc_extra') or any(v % K for v in cnt.t.values()):
                return None
            if l.get('split', K) != K:
                return None
            l['split'] = K
            return Poly.atom(('sym', '(%s%s%d)' % (l['name'], op, K)))
        return None

    def call_value(self, n):
        """value of a call of a small helper of the utility namespace: parameters bound, body = local constants + return"""
        tu = self.tu
        if n.get('kind') != 'CallExpr' or self.depth > 3:
            return None
        callee = tu.callee_fn(n)
        if callee is None or tu.body(callee) is None or not callee['q'].startswith(UTIL):
            return None
        args = tu.call_parts(n)[2]
        saved = dict(self.bind), dict(self.locals)
        self.depth += 1
        try:
            for p, a in zip(callee.get('params', []), args):
                v = self.ev().ev(a)
                if v is None:
                    v = self.ptr_value(a)
                if v is None:
                    return None
                self.bind[p['id']] = v
            for st in tu.kids(tu.body(callee)):
                k = st.get('kind')
                if k == 'DeclStmt':
                    for vd in st.get('inner', ()):
                        if isinstance(vd, dict) and vd.get('kind') == 'VarDecl' and tu.kids(vd):
                            v = self.ev().ev(tu.kids(vd)[0])
                            if v is None:
                                v = self.min_form(tu.kids(vd)[0])
                            if v is None:
                                return None
                            self.locals[vd['id']] = v
                elif k == 'ReturnStmt' and tu.kids(st):
                    v = self.ev().ev(tu.kids(st)[0])
                    return v if v is not None else self.min_form(tu.kids(st)[0])
                else:
                    return None
            return None
        finally:
            self.depth -= 1
            self.bind, self.locals = saved

    def parse_loop(self, n, depth):
        tu = self.tu
        inner = n.get('inner', [])
        if len(inner) != 5:
            raise Undecided('for statement shape')
        init, condvar, cond, inc, body = inner
        if not (isinstance(init, dict) and init.get('kind') == 'DeclStmt' and len(tu.kids(init)) == 1):
            raise Undecided('loop initialisation is not one declaration')
        iv = tu.kids(init)[0]
        start = self.ev().ev(tu.kids(iv)[0]) if tu.kids(iv) else None
        if start is not None and start != Poly.const(0):
            name = iv.get('name')
            atom = ('sym', name)
            self.loops[iv['id']] = {'name': name, 'node': n, 'depth': depth, 'id': iv['id']}
            rel = self.ev().rel(cond) if isinstance(cond, dict) and cond.get('kind') else None
            incn = tu.strip(inc) if isinstance(inc, dict) and inc.get('kind') else None
            dec = incn is not None and tu.ref_decl(tu.kids(incn)[0]) == iv['id'] and (
                (incn.get('kind') == 'UnaryOperator' and incn.get('opcode') == '--') or
                (incn.get('kind') == 'CompoundAssignOperator' and incn.get('opcode') == '-=' and
                 tu.sd(tu.strip(tu.kids(incn)[1])).get('cv') == '1'))
            # condition v > 0 (v >= 1): normal form  1 - v <= 0
            if dec and rel and len(rel) == 1 and rel[0] == (Poly.const(1) - Poly.atom(atom), '<='):
                # v runs B, B-1, ..., 1: iteration l (0-based) has v = B - l
                self.loops[iv['id']].update({'step': 1, 'bound': start, 'count': start, 'inc_extra': [],
                                             'value': start - Poly.atom(atom)})
                return iv['id'], body
            del self.loops[iv['id']]
            raise Undecided('loop `%s` neither starts at 0 and counts up nor runs from a bound down to 1' % iv.get('name'))
        if start != Poly.const(0):
            raise Undecided('loop `%s` does not start at 0' % iv.get('name'))
        name = iv.get('name')
        self.loops[iv['id']] = {'name': name, 'node': n, 'depth': depth, 'id': iv['id']}
        atom = ('sym', name)
        rel = self.ev().rel(cond) if isinstance(cond, dict) and cond.get('kind') else None
        if not rel or len(rel) != 1 or rel[0][1] != '<=':
            raise Undecided('loop condition of `%s` has no normal form' % name)
        co = rel[0][0].coeff(atom)
        if co is None or co[0] != Poly.const(1):
            raise Undecided('loop condition of `%s` is not `%s < bound`' % (name, name))
        bound = -co[1] + 1            # v + rest <= 0  -> v <= -rest  -> v in [0, -rest] -> count -rest+1
        incn = tu.strip(inc) if isinstance(inc, dict) and inc.get('kind') else None
        # `x++, src += K`: the other parts of a comma increment advance running pointers once per iteration
        parts = []
        todo = [incn] if incn is not None else []
        while todo:
            q_ = tu.strip(todo.pop())
            if q_ is not None and q_.get('kind') == 'BinaryOperator' and q_.get('opcode') == ',':
                todo.extend(reversed(tu.kids(q_)))
            elif q_ is not None:
                parts.append(q_)
        own = [q_ for q_ in parts if q_.get('kind') in ('UnaryOperator', 'CompoundAssignOperator') and
               tu.ref_decl(tu.kids(q_)[0]) == iv['id']]
        self.loops[iv['id']]['inc_extra'] = [q_ for q_ in parts if q_ not in own]
        incn = own[0] if len(own) == 1 else None
        step = None
        if incn is not None and incn.get('kind') == 'UnaryOperator' and incn.get('opcode') == '++':
            if tu.ref_decl(tu.kids(incn)[0]) == iv['id']:
                step = Poly.const(1)
        elif incn is not None and incn.get('kind') == 'CompoundAssignOperator' and incn.get('opcode') == '+=':
            if tu.ref_decl(tu.kids(incn)[0]) == iv['id']:
                step = self.ev().ev(tu.kids(incn)[1])
        if step is None or step.const_value() is None or step.const_value() < 1:
            raise Undecided('loop `%s` does not advance by a positive constant' % name)
        self.loops[iv['id']]['step'] = step.const_value()
        self.loops[iv['id']]['bound'] = bound
        # number of iterations of a unit-step loop; a strided loop (strip mining) is interpreted with its inner loop
        self.loops[iv['id']]['count'] = bound if step.const_value() == 1 else None
        return iv['id'], body

    def min_form(self, e):
        """Poly atom for min(a, b) written as `a < b ? a : b` (any orientation) or std::min(a, b)"""
        tu = self.tu
        x = tu.strip(e)
        if x is None:
            return None
        a = b = None
        if x.get('kind') == 'ConditionalOperator':
            c, t, f_ = tu.kids(x)
            c = tu.strip(c)
            if c is None or c.get('kind') != 'BinaryOperator' or c.get('opcode') not in ('<', '<=', '>', '>='):
                return None
            l, r = (self.ev().ev(k) for k in tu.kids(c))
            tv, fv = self.ev().ev(t), self.ev().ev(f_)
            if None in (l, r, tv, fv):
                return None
            small, big = (l, r) if c['opcode'] in ('<', '<=') else (r, l)     # condition says small < big
            if tv == small and fv == big:
                a, b = small, big
            else:
                return None
        elif x.get('kind') == 'CallExpr' and tu.sd(x).get('q') == 'std::min':
            args = tu.call_parts(x)[2]
            if len(args) != 2:
                return None
            a, b = self.ev().ev(args[0]), self.ev().ev(args[1])
            if a is None or b is None:
                return None
        else:
            return None
        ka, kb = sorted((a, b), key=lambda p_: repr(p_.key()))
        atom = ('min', show(ka), show(kb))
        self.mins[atom] = (ka, kb)
        return Poly.atom(atom)

    def ptr_value(self, e):
        """('ptr', base param name, offset Poly in units of `unit` bytes, unit)"""
        tu = self.tu
        e0 = tu.strip(e)
        casts = []
        while e0 is not None and e0.get('kind') in ('CStyleCastExpr', 'CXXStaticCastExpr', 'CXXReinterpretCastExpr'):
            casts.append(tu.sd(e0).get('ct', ''))
            e0 = tu.strip(tu.kids(e0)[-1])
        if e0 is None:
            return None
        k = e0.get('kind')
        res = None
        if k == 'UnaryOperator' and e0.get('opcode') == '++' and e0.get('isPostfix'):
            return self.ptr_value(tu.kids(e0)[0]) if not casts else None
        if k == 'UnaryOperator' and e0.get('opcode') == '&':
            x = tu.strip(tu.kids(e0)[0])
            if x is not None and x.get('kind') == 'ArraySubscriptExpr':
                b, i = tu.kids(x)
                bp = self.ptr_value(b)
                iv = self.ev().ev(i)
                if bp is not None and iv is not None:
                    res = ('ptr', bp[1], bp[2] + iv, bp[3])
        elif k == 'BinaryOperator' and e0.get('opcode') == '+':
            a, b = tu.kids(e0)
            bp = self.ptr_value(a)
            iv = self.ev().ev(b)
            if bp is None:
                bp = self.ptr_value(b)
                iv = self.ev().ev(a)
            if bp is not None and iv is not None:
                res = ('ptr', bp[1], bp[2] + iv, bp[3])
        elif k == 'DeclRefExpr' and isinstance(self.bind.get(e0.get('referencedDecl', {}).get('id')), tuple):
            res = self.bind[e0['referencedDecl']['id']]
            if res[0] == 'opaque':
                return None
        elif k == 'DeclRefExpr':
            did = e0.get('referencedDecl', {}).get('id')
            p = self.params.get(did)
            if p is not None and p['ct'].rstrip().rstrip('const').rstrip().endswith('*'):
                pt = re.sub(r'\*\s*(const)?\s*$', '', p['ct']).strip()
                pt = re.sub(r'^const\s+', '', pt)
                sz = type_size(tu, pt)
                if sz is not None:
                    res = ('ptr', p['name'], Poly.const(0), sz)
            elif isinstance(self.locals.get(did), tuple):
                res = self.locals[did]
        elif k == 'CXXMemberCallExpr' and tu.sd(e0).get('q', '').split('::')[-1] == 'data' and \
                tu.ref_decl(tu.call_parts(e0)[1]) in self.vecs:
            nm_, esz_ = self.vecs[tu.ref_decl(tu.call_parts(e0)[1])]
            res = ('ptr', '@' + nm_, Poly.const(0), esz_)
        elif k == 'CallExpr' and tu.sd(e0).get('q') in ('__builtin_alloca', 'alloca'):
            n = self.ev().ev(tu.call_parts(e0)[2][0])
            if n is not None:
                res = ('alloc', n)
        if res is None:
            return None
        if casts and res[0] == 'ptr':
            # reinterpretation as a pointer to another element type: rescale the offset
            t = re.sub(r'\*\s*(const)?\s*$', '', casts[0]).strip()
            t = re.sub(r'^const\s+', '', t)
            sz = type_size(tu, t)
            if sz is None:
                return None
            if res[3] % sz == 0:
                res = ('ptr', res[1], res[2] * (res[3] // sz), sz)
            elif sz % res[3] == 0 and all(v_ % (sz // res[3]) == 0 for v_ in res[2].t.values()):
                # from a finer unit (bytes) back to elements: the byte offset is a whole number of elements
                k_ = sz // res[3]
                res = ('ptr', res[1], Poly({m_: v_ // k_ for m_, v_ in res[2].t.items()}), sz)
            else:
                return None
        elif casts and res[0] == 'alloc':
            t = re.sub(r'\*\s*(const)?\s*$', '', casts[0]).strip()
            t = re.sub(r'^const\s+', '', t)
            sz = type_size(tu, t)
            if sz is None:
                return None
            res = ('alloc', res[1], sz)
        return res


def bounds_over(poly, ranges):
    """(lo, hi) Polys of an expression that is linear in each ranged atom (atom -> count Poly, values 0..count-1);
    None if not linear.  Remaining atoms (sizes) are treated as non-negative symbols."""
    lo = hi = poly
    for atom, count in ranges:
        out = []
        for p, want_hi in ((lo, False), (hi, True)):
            co = p.coeff(atom)
            if co is None:
                return None
            a, rest = co
            c = a.const_value()
            if c is None:
                # symbolic non-negative coefficient (e.g. sizeX * y): only products of non-negative symbols
                if all(v > 0 for v in a.t.values()):
                    c = 1
                elif all(v < 0 for v in a.t.values()):
                    c = -1
                else:
                    return None
            if (c >= 0) == want_hi:
                out.append(rest + a * (count - 1))
            else:
                out.append(rest)
        lo, hi = out
    return lo, hi


def nonneg(poly):
    """is the polynomial trivially >= 0 (all coefficients non-negative over non-negative symbols)"""
    return all(v >= 0 for v in poly.t.values())


def check_write_image(ctx, tu, f):
    R = 'R-C20-1'
    targs = f.get('targs') or []
    inst = 'writeImage<%s>' % ', '.join(targs)
    keyb = '%s|%s|writeImage|' % (R, tu.fn_file(f))
    if len(targs) != 5:
        ctx.undecided(R, inst, 'expected 5 template arguments (COMP_T, N_COMP, PIXEL_T, PIXEL_COMP, FLIP)', tu.fn_loc(f))
        return
    comp_t, N, pix_t, P, flip = targs[0], int(targs[1]), targs[2], int(targs[3]), targs[4] == 'true'
    csz, psz = type_size(tu, comp_t), type_size(tu, pix_t)
    if csz is None or psz is None:
        ctx.undecided(R, inst, 'size of `%s` or `%s` unknown' % (comp_t, pix_t), tu.fn_loc(f))
        return
    good = True
    if psz != P * csz:
        ctx.violation(R, inst, 'sizeof(%s) = %d but PIXEL_COMP * sizeof(%s) = %d: the pixel stride used for indexing does not '
                      'match the pixel type' % (pix_t, psz, comp_t, P * csz), tu.fn_loc(f), key=keyb + 'pixel-size')
        good = False
    img = ImgFn(tu, f)
    body = tu.body(f)
    sx, sy = Poly.atom(('param', 'sizeX')), Poly.atom(('param', 'sizeY'))
    pnames = [p['name'] for p in f['params']]
    if 'sizeX' not in pnames or 'sizeY' not in pnames:
        # parameters renamed: take the two int parameters in order
        ints = [p['name'] for p in f['params'] if p['ct'].replace('const ', '') == 'int']
        if len(ints) != 2:
            ctx.undecided(R, inst, 'cannot identify the width/height parameters', tu.fn_loc(f))
            return
        sx, sy = Poly.atom(('param', ints[0])), Poly.atom(('param', ints[1]))
    pix_param = [p['name'] for p in f['params'] if p['ct'].rstrip().rstrip('const').rstrip().endswith('*')
                 and 'char' not in p['ct'].split('*')[0].replace('unsigned char', '')]
    reads, writes, fwrites, allocs = [], [], [], []
    dyn_stack = []          # alloca() blocks: released only when the function returns
    tile_gap = []           # tile loops that stop before the tiles cover the row
    try:
        def walk(n, stack):
            k = n.get('kind')
            if k == 'ForStmt':
                vid, b = img.parse_loop(n, len(stack))
                # pointers advanced inside the body (`in += k;`): their value at the start of an iteration is the value
                # before the loop plus what earlier iterations added -- a symbol resolved after the body is known
                bumped = {}

                def nearest_is_this_loop(x):
                    """x lies in the body of this loop, not inside a nested loop, and not under a condition"""
                    p_ = tu.par(x)
                    hops = 0
                    while p_ is not None and hops < 40:
                        hops += 1
                        if p_.get('id') == n.get('id'):
                            return True
                        if p_.get('kind') in ('ForStmt', 'WhileStmt', 'DoStmt', 'CXXForRangeStmt'):
                            return False
                        if p_.get('id') == b.get('id'):
                            return True
                        if p_.get('kind') in ('IfStmt', 'ConditionalOperator', 'SwitchStmt') or \
                                (p_.get('kind') == 'BinaryOperator' and p_.get('opcode') in ('&&', '||')):
                            return None
                        p_ = tu.par(p_)
                    return None

                cands = [(x, 'body') for x in tu.walk(b)] + [(y, 'inc') for q_ in img.loops[vid].get('inc_extra', [])
                                                              for y in tu.walk(q_)]
                for x, where in cands:
                    if x.get('kind') in ('CompoundAssignOperator', 'UnaryOperator', 'BinaryOperator') and \
                            x.get('opcode') in ('+=', '-=', '++', '--', '='):
                        did = tu.ref_decl(tu.kids(x)[0])
                        if did is not None and isinstance(img.locals.get(did), tuple) and img.locals[did][0] == 'ptr':
                            near = True if where == 'inc' else nearest_is_this_loop(x)
                            if near is False:
                                continue          # belongs to a nested loop, handled when that loop is entered
                            if near is None:
                                raise Undecided('pointer `%s` is advanced under a condition' % tu.show(tu.kids(x)[0]))
                            bumped.setdefault(did, []).append((x, where))
                for q_ in img.loops[vid].get('inc_extra', []):
                    if any(q_ is x or q_.get('id') == x.get('id') for xs_ in bumped.values() for x, w_ in xs_):
                        continue
                    # a running integer: v += K once per iteration of a unit-step loop  ->  v = start + K * iteration
                    did_ = tu.ref_decl(tu.kids(q_)[0]) if q_.get('kind') in ('CompoundAssignOperator', 'UnaryOperator') else None
                    cur_ = img.locals.get(did_)
                    if isinstance(cur_, Poly) and img.loops[vid].get('step', 1) == 1 and 'value' not in img.loops[vid]:
                        if q_.get('kind') == 'UnaryOperator' and q_.get('opcode') in ('++', '--'):
                            k_ = Poly.const(1 if q_['opcode'] == '++' else -1)
                        elif q_.get('opcode') in ('+=', '-='):
                            k_ = img.ev().ev(tu.kids(q_)[1])
                            k_ = -k_ if (k_ is not None and q_['opcode'] == '-=') else k_
                        else:
                            k_ = None
                        other_writes = [y for y in tu.walk(b) if y.get('kind') in ('BinaryOperator', 'CompoundAssignOperator', 'UnaryOperator')
                                        and y.get('opcode') in ('=', '+=', '-=', '++', '--') and tu.ref_decl(tu.kids(y)[0]) == did_]
                        if k_ is not None and k_.const_value() is not None and not other_writes:
                            img.locals[did_] = cur_ + Poly.atom(('sym', img.loops[vid]['name'])) * k_.const_value()
                            continue
                    raise Undecided('loop increment `%s` is not modelled' % tu.show(q_))
                for did, xs in bumped.items():
                    x0, where = xs[0]
                    if len(xs) != 1 or x0.get('opcode') not in ('+=', '++'):
                        raise Undecided('pointer `%s` is modified inside a loop in a way that is not modelled' % tu.show(tu.kids(x0)[0]))
                    if where == 'body':
                        par = tu.par(x0)
                        if x0.get('opcode') == '++' and not x0.get('isPostfix') and par is not None and par.get('id') != b.get('id') \
                                and par.get('kind') != 'CompoundStmt':
                            raise Undecided('pre-increment of `%s` used as a value' % tu.show(tu.kids(x0)[0]))
                        # nothing in the body may use the pointer after the statement that advances it
                        top = x0
                        while tu.par(top) is not None and tu.par(top).get('id') != b.get('id'):
                            top = tu.par(top)
                        later = False
                        seen_bump = b.get('id') == top.get('id') or tu.par(top) is None
                        for c in (b.get('inner', ()) if not seen_bump else ()):
                            if not (isinstance(c, dict) and c.get('kind')):
                                continue
                            if c.get('id') == top['id']:
                                seen_bump = True
                            elif seen_bump and any(tu.ref_decl(y) == did for y in tu.walk(c) if y.get('kind') == 'DeclRefExpr'):
                                later = True
                        if later:
                            raise Undecided('pointer advanced in the middle of a loop body')
                    atom = ('carry', did, vid)
                    pv = img.locals[did]
                    outer = [v_ for v_ in stack if v_ not in img.decl_stack.get(did, [])]
                    img.carry[atom] = {'var': did, 'loop': vid, 'node': x0, 'amount': None, 'outer': outer}
                    img.locals[did] = ('ptr', pv[1], pv[2] + Poly.atom(atom), pv[3])
                walk(b, stack + [vid])
                for did, xs in bumped.items():
                    atom = ('carry', did, vid)
                    x0 = xs[0][0]
                    img.carry[atom]['amount'] = Poly.const(1) if x0.get('opcode') == '++' else img.ev().ev(tu.kids(x0)[1])
                return
            if k == 'CompoundAssignOperator' and isinstance(img.locals.get(tu.ref_decl(tu.kids(n)[0])), tuple):
                return      # pointer bump, accounted for by the enclosing loop
            if k == 'WhileStmt':
                # while (v < B) { ...; v += min(B - v, S); }  with v = 0 before: v takes the values 0, S, 2S, ... < B (every
                # advance but the last is a full S, the last one lands on B), i.e. for (v = 0; v < B; v += S)
                ks_ = [c for c in n.get('inner', ()) if isinstance(c, dict) and c.get('kind')]
                if len(ks_) != 2:
                    raise Undecided('while statement shape')
                cond_, b = ks_
                c0 = tu.strip(cond_)
                vid = None
                if c0 is not None and c0.get('kind') == 'BinaryOperator' and c0.get('opcode') in ('<', '>', '<=', '>='):
                    cands_ = {y.get('referencedDecl', {}).get('id') for y in tu.walk(c0) if y.get('kind') == 'DeclRefExpr'}
                    cands_ = [d_ for d_ in cands_ if d_ is not None and img.locals.get(d_) == Poly.const(0) and d_ not in img.loops
                              and (tu.node(d_) or {}).get('kind') == 'VarDecl' and
                              'const' not in (tu.node(d_) or {}).get('type', {}).get('qualType', '')]
                    vid = cands_[0] if len(cands_) == 1 else None
                if vid is None:
                    raise Undecided('loop construct `WhileStmt` whose condition does not test a counter that is 0 before the loop')
                vd_ = tu.node(vid)
                if vd_ is None or vd_.get('kind') != 'VarDecl' or b.get('kind') != 'CompoundStmt':
                    raise Undecided('loop construct `WhileStmt`: counter or body shape')
                # the counter must still be 0 when the loop is reached: declared in the statement just before the loop
                par_ = tu.par(n)
                sibs = [c for c in par_.get('inner', ()) if isinstance(c, dict) and c.get('kind')] if par_ is not None else []
                idx_ = [i_ for i_, c in enumerate(sibs) if c.get('id') == n.get('id')]
                prev = sibs[idx_[0] - 1] if idx_ and idx_[0] > 0 else None
                if prev is None or prev.get('kind') != 'DeclStmt' or not any(
                        isinstance(c, dict) and c.get('id') == vid for c in prev.get('inner', ())):
                    raise Undecided('loop construct `WhileStmt`: the counter is not declared directly before the loop')
                name = vd_.get('name')
                stmts_ = tu.kids(b)
                writes_ = [y for y in tu.walk(b) if y.get('kind') in ('BinaryOperator', 'CompoundAssignOperator', 'UnaryOperator')
                           and y.get('opcode') in ('=', '+=', '-=', '*=', '++', '--') and tu.ref_decl(tu.kids(y)[0]) == vid]
                last = tu.strip(stmts_[-1]) if stmts_ else None
                if len(writes_) != 1 or last is None or last.get('id') != writes_[0].get('id') or last.get('opcode') != '+=':
                    raise Undecided('loop construct `WhileStmt`: the counter is not advanced exactly once, by `+=` as the last '
                                    'statement of the body')
                if any(y.get('kind') in ('BreakStmt', 'ContinueStmt', 'ReturnStmt', 'GotoStmt', 'CXXThrowExpr') for y in tu.walk(b)):
                    raise Undecided('loop construct `WhileStmt` with an early exit')
                if any(y.get('kind') == 'UnaryOperator' and y.get('opcode') == '&' and tu.ref_decl(tu.kids(y)[0]) == vid
                       for y in tu.walk(b)):
                    raise Undecided('loop construct `WhileStmt`: address of the counter taken')
                img.loops[vid] = {'name': name, 'node': n, 'depth': len(stack), 'id': vid, 'inc_extra': [], 'step': None,
                                  'bound': None, 'count': None}
                atom = ('sym', name)
                try:
                    rel = img.ev().rel(cond_)
                    co = rel[0][0].coeff(atom) if rel and len(rel) == 1 and rel[0][1] == '<=' else None
                    if co is None or co[0] != Poly.const(1):
                        raise Undecided('loop construct `WhileStmt`: condition is not `%s < bound`' % name)
                    bound = -co[1] + 1
                    img.loops[vid]['bound'] = bound
                    for st_ in stmts_[:-1]:
                        walk(st_, stack + [vid])
                    amt = img.ev().ev(tu.kids(last)[1])
                    mins_ = [a_ for a_ in (amt.atoms() if amt is not None else ()) if isinstance(a_, tuple) and a_[0] == 'min']
                    S_ = None
                    if amt is not None and len(mins_) == 1 and amt == Poly.atom(mins_[0]):
                        pa, pb = img.mins[mins_[0]]
                        for rest_, k_ in ((pa, pb), (pb, pa)):
                            if k_.const_value() is not None and k_.const_value() >= 1 and rest_ == bound - Poly.atom(atom):
                                S_ = k_.const_value()
                            elif k_.const_value() is not None and k_.const_value() >= 1:
                                # tiles are cut to fit below `total`, but the loop only starts one while v < total - d
                                d_ = (rest_ + Poly.atom(atom) - bound).const_value()
                                if d_ is not None and d_ >= 1:
                                    tile_gap.append((n, name, show(rest_ + Poly.atom(atom)), show(bound), d_))
                                    S_ = k_.const_value()
                                    img.loops[vid]['bound'] = bound = rest_ + Poly.atom(atom)
                    elif amt is not None and amt.const_value() is not None and amt.const_value() >= 1 and rel[0][1] == '<=':
                        S_ = amt.const_value()           # plain counted loop
                    if S_ is None:
                        raise Undecided('loop construct `WhileStmt`: the counter advances by `%s`, not by min(bound - %s, constant)'
                                        % (tu.show(tu.kids(last)[1]), name))
                except Undecided:
                    del img.loops[vid]
                    raise
                img.loops[vid]['step'] = S_
                img.loops[vid]['count'] = bound if S_ == 1 else None
                return
            if k in ('WhileStmt', 'DoStmt', 'CXXForRangeStmt', 'GotoStmt'):
                raise Undecided('loop construct `%s`' % k)
            if k == 'CXXMemberCallExpr' and tu.sd(n).get('q', '').split('::')[-1] in ('resize', 'assign') and \
                    tu.ref_decl(tu.call_parts(n)[1]) in img.vecs and tu.call_parts(n)[2]:
                did_ = tu.ref_decl(tu.call_parts(n)[1])
                cnt = img.ev().ev(tu.call_parts(n)[2][0])
                if cnt is None:
                    raise Undecided('size in `%s` has no normal form' % tu.show(n))
                nm_, esz_ = img.vecs[did_]
                allocs[:] = [a for a in allocs if a[0]['id'] != did_]
                allocs.append((tu.node(did_), ('alloc', cnt * esz_, esz_), list(stack)))
                return
            if k == 'DeclStmt':
                for vd in n.get('inner', ()):
                    vm = re.match(r'^std::vector<(.+?)(, std::allocator<.*>)?>$', vd.get('type', {}).get('qualType', '')) \
                        if isinstance(vd, dict) and vd.get('kind') == 'VarDecl' else None
                    if vm:
                        esz_ = type_size(tu, vm.group(1))
                        if esz_ is None:
                            raise Undecided('element size of `%s` unknown' % vd.get('type', {}).get('qualType'))
                        img.vecs[vd['id']] = (vd.get('name', 'buf'), esz_)
                        init_ = tu.strip(tu.kids(vd)[0]) if tu.kids(vd) else None
                        args_ = tu.call_parts(init_)[2] if init_ is not None and init_.get('kind') == 'CXXConstructExpr' else []
                        args_ = [a for a in args_ if a.get('kind') != 'CXXDefaultArgExpr']
                        if args_:
                            cnt = img.ev().ev(args_[0])
                            if cnt is None:
                                raise Undecided('size of the vector `%s` has no normal form' % vd.get('name'))
                            allocs.append((vd, ('alloc', cnt * esz_, esz_), list(stack)))
                        continue
                    if isinstance(vd, dict) and vd.get('kind') == 'VarDecl' and tu.kids(vd):
                        init = tu.kids(vd)[0]
                        i0 = tu.strip(init, casts=True)
                        if i0 is not None and i0.get('kind') == 'CallExpr' and tu.sd(i0).get('q', '').startswith(UTIL) and \
                                tu.callee_fn(i0) is not None and tu.body(tu.callee_fn(i0)) is not None and \
                                tu.sd(i0).get('ct', '').rstrip().endswith('*'):
                            rv = inline_helper(i0, stack)
                            if rv is not None:
                                img.locals[vd['id']] = rv
                                img.decl_stack[vd['id']] = list(stack)
                            continue          # a pointer without a normal form (e.g. FILE *) stays unknown
                        pv = img.ptr_value(init)
                        if pv is not None:
                            img.locals[vd['id']] = pv
                            img.decl_stack[vd['id']] = list(stack)
                            if pv[0] == 'alloc':
                                allocs.append((vd, pv, list(stack)))
                                dyn_stack.append((vd, pv, list(stack)))
                                img.locals[vd['id']] = ('ptr', '@' + vd.get('name', 'buf'), Poly.const(0), pv[2] if len(pv) > 2 else 1)
                        else:
                            v = img.ev().ev(init)
                            if v is None:
                                v = img.min_form(init)
                            if v is not None:
                                img.locals[vd['id']] = v
                    elif isinstance(vd, dict) and vd.get('kind') == 'VarDecl':
                        m = re.match(r'^(.*?)\s*\[(\d+)\]$', vd.get('type', {}).get('qualType', ''))
                        esz = type_size(tu, re.sub(r'^const\s+', '', m.group(1))) if m else None
                        if m and esz:
                            allocs.append((vd, ('array', Poly.const(int(m.group(2)) * esz), esz), list(stack)))
                            img.locals[vd['id']] = ('ptr', '@' + vd.get('name', 'buf'), Poly.const(0), esz)
                return
            if k == 'LambdaExpr':
                return          # the body is walked where the lambda is called
            if k == 'CXXOperatorCallExpr' and tu.sd(n).get('q', '').split('::')[-1] == 'operator()' and \
                    tu.callee_fn(n) is not None and tu.body(tu.callee_fn(n)) is not None and \
                    tu.fn_file(tu.callee_fn(n)) == tu.fn_file(f):
                callee = tu.callee_fn(n)
                if img.depth > 3:
                    raise Undecided('lambda nesting too deep')
                saved = dict(img.bind)
                img.depth += 1
                try:
                    for p_, a in zip(callee.get('params', []), tu.kids(n)[2:]):
                        v = img.ptr_value(a)
                        if v is None:
                            v = img.ev().ev(a)
                        if v is None:
                            raise Undecided('argument `%s` of the lambda has no normal form' % tu.show(a))
                        img.bind[p_['id']] = v
                    walk(tu.body(callee), stack)
                finally:
                    img.depth -= 1
                    img.bind = saved
                return
            if k == 'IfStmt':
                ks_ = [c for c in n.get('inner', ()) if isinstance(c, dict) and c.get('kind')]
                tv_ = img.ev().truth(ks_[0]) if ks_ else None
                if tv_ is not None and len(ks_) >= 2 and not n.get('hasInit') and not n.get('hasVar'):
                    # a compile-time condition (template argument): only the branch that exists in this instantiation
                    if tv_:
                        walk(ks_[1], stack)
                    elif len(ks_) >= 3:
                        walk(ks_[2], stack)
                    return
                assigns = [x for x in tu.walk(ks_[1]) if x.get('kind') == 'BinaryOperator' and x.get('opcode') == '=' and
                           isinstance(img.locals.get(tu.ref_decl(tu.kids(x)[0])), tuple) and
                           img.locals[tu.ref_decl(tu.kids(x)[0])][0] == 'ptr'] if len(ks_) >= 2 else []
                if assigns:
                    # the staging pointer is redirected to a heap block under a condition (small-buffer pattern)
                    if len(ks_) != 2 or len(assigns) != 1:
                        raise Undecided('conditional redirection of a buffer pointer that is not `if (c) { p = heap; }`')
                    pvar = tu.ref_decl(tu.kids(assigns[0])[0])
                    cur = img.locals[pvar]
                    if not cur[1].startswith('@') or cur[2] != Poly.const(0):
                        raise Undecided('conditional redirection of a pointer that is not a staging buffer')
                    rel = img.ev().rel(ks_[0])
                    news = [x for x in tu.walk(ks_[1]) if x.get('kind') == 'CXXNewExpr' and x.get('isArray')]
                    cnt = img.ev().ev(tu.kids(news[0])[0]) if len(news) == 1 and tu.kids(news[0]) else None
                    if cnt is None:
                        for x in tu.walk(ks_[1]):
                            if x.get('kind') == 'CXXMemberCallExpr' and tu.sd(x).get('q', '').split('::')[-1] in ('resize', 'assign') \
                                    and tu.call_parts(x)[2]:
                                cnt = img.ev().ev(tu.call_parts(x)[2][0])
                    if rel is None or len(rel) != 1 or cnt is None:
                        raise Undecided('condition or size of the heap fallback has no normal form')
                    img.alts[cur[1]] = (rel, cnt * cur[3])
                    return
            if k == 'BinaryOperator' and n.get('opcode') == '=':
                l, r = tu.kids(n)
                ls = tu.strip(l)
                if ls is not None and ls.get('kind') == 'UnaryOperator' and ls.get('opcode') == '*':
                    bp = img.ptr_value(tu.kids(ls)[0])
                    if bp is None:
                        raise Undecided('store `%s` has no normal form' % tu.show(l))
                    writes.append((bp, Poly.const(0), n, list(stack)))
                    walk(r, stack)
                    return
                if ls is not None and ls.get('kind') == 'ArraySubscriptExpr':
                    bp = img.ptr_value(tu.kids(ls)[0])
                    ix = img.ev().ev(tu.kids(ls)[1])
                    if bp is None or ix is None:
                        raise Undecided('store `%s` has no normal form' % tu.show(l))
                    writes.append((bp, ix, n, list(stack)))
                    walk(r, stack)
                    return
            if k == 'UnaryOperator' and n.get('opcode') == '*' and img.ptr_value(tu.kids(n)[0]) is not None:
                reads.append((img.ptr_value(tu.kids(n)[0]), Poly.const(0), n, list(stack)))
                return
            if k == 'ArraySubscriptExpr':
                bp = img.ptr_value(tu.kids(n)[0])
                ix = img.ev().ev(tu.kids(n)[1])
                par = tu.par(n)
                if par is not None and par.get('kind') == 'UnaryOperator' and par.get('opcode') == '&':
                    return       # address computation, handled by ptr_value at the declaration
                if bp is None or ix is None:
                    raise Undecided('access `%s` has no normal form' % tu.show(n))
                reads.append((bp, ix, n, list(stack)))
                return
            if k == 'CallExpr' and tu.sd(n).get('q') in ('fwrite', 'std::fwrite'):
                a__ = tu.call_parts(n)[2]
                # operands are evaluated here, where the parameters of an enclosing helper are still bound
                fwrites.append((n, list(stack), img.ptr_value(a__[0]) if a__ else None,
                                img.ev().ev(a__[1]) if len(a__) > 1 else None, img.ev().ev(a__[2]) if len(a__) > 2 else None))
                return
            if k == 'CallExpr' and tu.sd(n).get('q', '').startswith(UTIL) and tu.callee_fn(n) is not None and \
                    tu.body(tu.callee_fn(n)) is not None and tu.sd(n).get('ct', 'void') == 'void':
                inline_helper(n, stack)
                return
            walk_kids(n, stack)

        def inline_helper(n, stack):
            """walk the body of a helper of the utility namespace with its parameters bound; value of its return"""
            callee = tu.callee_fn(n)
            if img.depth > 3:
                raise Undecided('helper nesting too deep')
            saved = dict(img.bind)
            img.depth += 1
            try:
                for p_, a in zip(callee.get('params', []), tu.call_parts(n)[2]):
                    v = img.ptr_value(a)
                    if v is None:
                        v = img.ev().ev(a)
                    if isinstance(v, tuple) and v[0] == 'alloc':
                        raise Undecided('allocation passed directly to a helper')
                    # an argument without a normal form (file name, FILE *) only matters if an index depends on it
                    img.bind[p_['id']] = v if v is not None else ('opaque',)
                walk(tu.body(callee), stack)
                rets = [r for r in tu.walk(tu.body(callee)) if r.get('kind') == 'ReturnStmt' and tu.kids(r)]
                if len(rets) == 1:
                    rv = img.ptr_value(tu.kids(rets[0])[0])
                    return rv if rv is not None else img.ev().ev(tu.kids(rets[0])[0])
                return None
            finally:
                img.depth -= 1
                img.bind = saved

        def walk_kids(n, stack):
            for c in n.get('inner', ()):
                if isinstance(c, dict) and c.get('kind'):
                    walk(c, stack)

        walk(body, [])
        # a flat loop whose variable is taken apart with / and %: two nested loops (quotient outside, remainder inside)
        for vid, l in list(img.loops.items()):
            K = l.get('split')
            if K is None:
                continue
            if any(vid in c_.get('outer', ()) or c_.get('loop') == vid for c_ in img.carry.values()):
                raise Undecided('pointer advanced in the flat loop `%s`, whose variable is split with / and %%' % l['name'])
            qn, rn = '(%s/%d)' % (l['name'], K), '(%s%%%d)' % (l['name'], K)
            qid, rid = str(vid) + '#q', str(vid) + '#r'
            M = Poly({m_: v_ // K for m_, v_ in l['count'].t.items()})
            base_ = {'node': l['node'], 'depth': l['depth'], 'step': 1, 'inc_extra': []}
            img.loops[qid] = dict(base_, name=qn, id=qid, bound=M, count=M)
            img.loops[rid] = dict(base_, name=rn, id=rid, bound=Poly.const(K), count=Poly.const(K))
            img.virtual |= {qid, rid}
            ia = ('sym', l['name'])
            val = Poly.atom(('sym', qn)) * K + Poly.atom(('sym', rn))

            def sub_p(p_):
                return p_.subst(ia, val) if isinstance(p_, Poly) and ia in p_.atoms() else p_

            def sub_ptr(bp_):
                return ('ptr', bp_[1], sub_p(bp_[2]), bp_[3]) if isinstance(bp_, tuple) and bp_ and bp_[0] == 'ptr' else bp_

            def sub_stack(st_):
                out_ = []
                for v_ in st_:
                    out_ += [qid, rid] if v_ == vid else [v_]
                return out_

            reads[:] = [(sub_ptr(bp_), sub_p(ix_), n_, sub_stack(st_)) for bp_, ix_, n_, st_ in reads]
            writes[:] = [(sub_ptr(bp_), sub_p(ix_), n_, sub_stack(st_)) for bp_, ix_, n_, st_ in writes]
            fwrites[:] = [(n_, sub_stack(st_), sub_ptr(fp_), sub_p(e1_), sub_p(e2_)) for n_, st_, fp_, e1_, e2_ in fwrites]
            allocs[:] = [(vd_, pv_, sub_stack(st_)) for vd_, pv_, st_ in allocs]
    except Undecided as u:
        ctx.undecided(R, inst, str(u), tu.fn_loc(f))
        return
    loops = img.loops
    by_name = {l['name']: l for l in loops.values()}
    for n_, name_, total_, cond_bound_, d_ in tile_gap:
        ctx.violation(R, inst, 'the tile loop runs while `%s < %s` although its tiles are cut to cover `%s` items: it stops as soon as '
                      'fewer than %d remain, so the last, partial tile of a row is never converted or written (e.g. a row of 1 '
                      'pixel produces no bytes at all)' % (name_, cond_bound_, total_, d_ + 1), tu.loc(n_), key=keyb + 'tile-loop-stops-early')
        good = False
    # ---- memory obtained with alloca() stays allocated until writeImage returns: executed inside a loop it piles up
    for vd_, pv_, st_ in dyn_stack:
        runs = [loops[v_] for v_ in st_ if v_ in loops]
        counts = [l_.get('count') if l_.get('count') is not None else l_.get('bound') for l_ in runs]
        if not runs or all(c_ is not None and c_.const_value() is not None for c_ in counts):
            continue          # once per call, or a fixed number of times
        total = pv_[1]
        for c_ in counts:
            total = total * c_ if (total is not None and c_ is not None) else None
        ctx.violation(R, inst, 'the row buffer `%s` is obtained with alloca() inside the loop over `%s`: alloca memory is released only '
                      'when writeImage returns, so every iteration adds another %s bytes and the call needs %s bytes of stack -- the '
                      'whole encoded image instead of one row. An image of ordinary size (e.g. 1024 x 4096 pixels) exhausts the '
                      'stack and the writer crashes after a prefix of the rows'
                      % (vd_.get('name'), ', '.join(l_['name'] for l_ in runs), show(pv_[1]),
                         show(total) if total is not None else 'a multiple of that'),
                      tu.loc(tu.kids(vd_)[0]) if tu.kids(vd_) else tu.fn_loc(f), key=keyb + 'stack-buffer-per-iteration')
        good = False

    def rng(stack):
        return [(('sym', loops[v]['name']), loops[v]['count']) for v in stack]

    def span_of(vid, xid):
        """is (v, x) a strip-mined pair: for (v = 0; v < B; v += S) for (x = 0; x < min(B - v, S); x++)"""
        lv, lx = loops[vid], loops[xid]
        if lv.get('step', 1) <= 1 or lx.get('step', 1) != 1 or lx['count'] is None:
            return None
        at = [a for a in lx['count'].atoms() if isinstance(a, tuple) and a[0] == 'min']
        if len(at) != 1 or lx['count'] != Poly.atom(at[0]):
            return None
        a, b = img.mins[at[0]]
        want = {(lv['bound'] - Poly.atom(('sym', lv['name']))).key(), Poly.const(lv['step']).key()}
        if {a.key(), b.key()} != want:
            return None
        return at[0]

    def loop_nest(stack):
        if len(stack) == 3:
            y, x, c = stack
            if any(loops[v].get('step', 1) != 1 for v in stack):
                raise Undecided('strided loop without a span loop inside it')
            # the column loop and the component loop may be nested either way round (component-major conversion)
            if loops[x]['count'] == Poly.const(N) and loops[c]['count'] == sx and sx != Poly.const(N):
                x, c = c, x
            return {'y': ('sym', loops[y]['name']), 'v': None, 'x': ('sym', loops[x]['name']), 'c': ('sym', loops[c]['name']),
                    'ycount': loops[y]['count'], 'xcount': loops[x]['count'], 'ccount': loops[c]['count'], 'span': None}
        if len(stack) == 4 and span_of(stack[1], stack[2]) is None and loops[stack[0]].get('step', 1) > 1:
            # rows handled in groups: for (g = 0; g < sizeY; g += S) for (r = 0; r < rows in this group; r++)
            gq, r, x, c = stack
            if any(loops[v].get('step', 1) != 1 for v in (r, x, c)) or loops[r]['count'] is None:
                raise Undecided('row groups whose inner loops are not unit-step')
            S_ = loops[gq]['step']
            sp = span_of(gq, r)
            improper = sp is None and loops[r]['count'] == Poly.const(S_)
            if sp is None and not improper:
                raise Undecided('row groups whose row count per group is neither min(bound - g, S) nor S')
            return {'y': ('sym', loops[r]['name']), 'v': None, 'x': ('sym', loops[x]['name']), 'c': ('sym', loops[c]['name']),
                    'ycount': loops[gq]['bound'], 'xcount': loops[x]['count'], 'ccount': loops[c]['count'], 'span': None,
                    'g': ('sym', loops[gq]['name']), 'gid': gq, 'rspan': sp, 'improper': improper, 'gstep': S_}
        if len(stack) == 4:
            y, v, x, c = stack
            sp = span_of(v, x)
            if sp is None or loops[y].get('step', 1) != 1 or loops[c].get('step', 1) != 1:
                raise Undecided('four nested loops that are not y / span start / column in span / component')
            return {'y': ('sym', loops[y]['name']), 'v': ('sym', loops[v]['name']), 'x': ('sym', loops[x]['name']),
                    'c': ('sym', loops[c]['name']), 'ycount': loops[y]['count'], 'xcount': loops[v]['bound'],
                    'ccount': loops[c]['count'], 'span': sp, 'vid': v}
        raise Undecided('access is not inside a y / x / c loop nest')

    def resolve_carry(total):
        """replace `pointer value carried into iteration` symbols: a pointer advanced by A*n at the end of every span
        of n = min(B - v, S) pixels has advanced A*v when the span starting at v begins (all earlier spans are full)"""
        for atom in [a for a in total.atoms() if isinstance(a, tuple) and a[0] == 'carry']:
            info = img.carry[atom]
            lv = loops[info['loop']]
            amt = info['amount']
            if amt is None:
                raise Undecided('amount of the pointer advance `%s` has no normal form' % tu.show(info['node']))
            mins = [a for a in amt.atoms() if isinstance(a, tuple) and a[0] == 'min']
            va_ = Poly.atom(('sym', lv['name']))
            if lv.get('step', 1) == 1 and not mins and amt.const_value() is not None:
                # p += K once per iteration of a unit-step loop: K*l, plus K*count for every completed pass of the loops
                # between the pointer's declaration and this loop (mixed radix)
                K = amt.const_value()
                term = va_ * K
                mult = lv['count']
                for m_ in reversed(info.get('outer', [])):
                    lm = loops[m_]
                    if mult is None or lm.get('step', 1) != 1 or lm['count'] is None:
                        raise Undecided('running pointer `%s` crosses a loop whose trip count is not known' % tu.show(tu.kids(info['node'])[0]))
                    term = term + Poly.atom(('sym', lm['name'])) * mult * K
                    mult = mult * lm['count']
                total = total.subst(atom, term)
                continue
            if len(mins) != 1:
                raise Undecided('pointer advance `%s` is not a multiple of the span length' % tu.show(info['node']))
            co = amt.coeff(mins[0])
            a, b = img.mins[mins[0]]
            want = {(lv['bound'] - va_).key(), Poly.const(lv['step']).key()}
            if co is None or co[1] != Poly() or co[0].const_value() is None or {a.key(), b.key()} != want:
                raise Undecided('pointer advance `%s` is not a multiple of the span length' % tu.show(info['node']))
            total = total.subst(atom, va_ * co[0].const_value())
        return total

    # ---- the arithmetic that locates a row must be exact for every image whose pixel count fits the index type (int)
    INT_MAX = 2 ** 31 - 1
    sxa, sya = list(sx.t)[0][0], list(sy.t)[0][0]
    row_atoms = set()
    for r_ in reads:
        for v_ in r_[3][:1]:
            row_atoms.add(('sym', loops[v_]['name']))
            if loops[v_].get('step', 1) > 1 and len(r_[3]) > 1:
                row_atoms.add(('sym', loops[r_[3][1]]['name']))

    def size_bound(poly):
        """upper bound of a value over all images with sizeX * sizeY <= INT_MAX (loop variables at their maximum)"""
        rng_ = [(('sym', l_['name']), l_['count'] if l_.get('count') is not None else l_.get('bound')) for l_ in loops.values()
                if ('sym', l_['name']) in poly.atoms()]
        if any(c_ is None for a_, c_ in rng_):
            return None
        b_ = bounds_over(poly, rng_) if rng_ else (poly, poly)
        if b_ is None:
            return None
        tot = 0
        for mon, c_ in b_[1].t.items():
            if not set(mon) <= {sxa, sya} or mon.count(sxa) > 1 or mon.count(sya) > 1:
                return None
            if c_ > 0:
                tot += c_ * (INT_MAX if mon else 1)
        return tot

    for x_ in tu.walk(body):
        if x_.get('kind') != 'BinaryOperator' or x_.get('opcode') not in ('*', '+') or \
                tu.sd(x_).get('ct') not in ('int', 'unsigned int'):
            continue
        pv_ = img.ev().ev(x_)
        if pv_ is None or not (set(pv_.atoms()) & row_atoms):
            continue
        ub_ = size_bound(pv_)
        lim_ = INT_MAX if tu.sd(x_).get('ct') == 'int' else 2 ** 32 - 1
        if ub_ is not None and ub_ > lim_:
            ctx.violation(R, inst, 'the row offset `%s` = %s is computed in `%s`: for an image whose pixel count still fits in int it can '
                          'reach %d, more than %d: the offset wraps around and rows are read from the wrong place (e.g. sizeX*sizeY '
                          'pixels with more than %d bytes of pixel data)' % (tu.show(x_), show(pv_), tu.sd(x_).get('ct'), ub_, lim_, lim_),
                          tu.loc(x_), key=keyb + 'row-offset-overflow')
            good = False
            break
    # ---- rows written straight from the source image (all components of every pixel are stored, in order)
    direct = [fwt for fwt in fwrites if (fwt[2] or (None, None))[1] in pix_param]
    if direct and not [r for r in reads if r[0][0] == 'ptr' and r[0][1] in pix_param] and len(fwrites) == 1:
        fw_, fstack, fp, e1, e2 = direct[0]
        unit = fp[3]
        per_pixel = psz // unit if unit and psz % unit == 0 else None
        if e1 is None or e2 is None or per_pixel is None:
            ctx.undecided(R, inst, 'fwrite from the pixel array: arguments have no normal form', tu.loc(fw_))
            return
        if len(fstack) != 1 or loops[fstack[0]].get('step', 1) != 1 or loops[fstack[0]]['count'] != sy:
            ctx.undecided(R, inst, 'fwrite from the pixel array is not executed once per row y in [0, sizeY)', tu.loc(fw_))
            return
        ya = ('sym', loops[fstack[0]]['name'])
        if N != P or csz * per_pixel != psz or per_pixel != P:
            ctx.violation(R, inst, 'the row is written straight from the pixel array although only %d of the %d components of a pixel '
                          'belong in the file' % (N, per_pixel), tu.loc(fw_), key=keyb + 'pass-through-components')
            return
        if e1 * e2 != sx * psz:
            ctx.violation(R, inst, 'fwrite emits `%s` bytes per row; a row of sizeX pixels has %s' % (show(e1 * e2), show(sx * psz)),
                          tu.loc(fw_), key=keyb + 'row-bytes')
            return
        want = (sy - 1 - Poly.atom(ya)) if flip else Poly.atom(ya)
        other = Poly.atom(ya) if flip else (sy - 1 - Poly.atom(ya))
        if fp[2] == want * sx * per_pixel:
            ctx.ok(R, inst, 'rows written straight from pixel[(%s)*sizeX], %s bytes each (N_COMP == PIXEL_COMP)'
                   % ('sizeY-1-y' if flip else 'y', show(sx * psz)), tu.fn_loc(f))
        elif fp[2] == other * sx * per_pixel:
            ctx.violation(R, inst, 'row selector is `%s` although FLIP is %s' % (show(other), targs[4]), tu.loc(fw_), key=keyb + 'flip')
        else:
            ctx.undecided(R, inst, 'fwrite from the pixel array starts at component `%s`, not at the start of row y' % show(fp[2]), tu.loc(fw_))
        return
    # ---- reads of the pixel array
    src_reads = [r for r in reads if r[0][0] == 'ptr' and r[0][1] in pix_param]
    if not src_reads:
        ctx.undecided(R, inst, 'no read of the pixel array found', tu.fn_loc(f))
        return
    for bp, ix, n, stack in src_reads:
        total = bp[2] + ix                     # in units of bp[3] bytes from the start of the pixel array
        unit = bp[3]
        if psz % unit != 0:
            ctx.undecided(R, inst, 'pixel array read in units of %d bytes' % unit, tu.loc(n))
            good = False
            continue
        per_pixel = psz // unit                # components per pixel as laid out in memory
        ranges = rng(stack)
        try:
            total = resolve_carry(total)
            nest = loop_nest(stack)
        except Undecided as u:
            ctx.undecided(R, inst, str(u), tu.loc(n))
            good = False
            continue
        ya, va, xa, ca = nest['y'], nest['v'], nest['x'], nest['c']
        ycount, xcount, ccount = nest['ycount'], nest['xcount'], nest['ccount']
        if nest.get('g') is not None:
            cg_, cr_ = total.coeff(nest['g']), total.coeff(ya)
            if cg_ is None or cr_ is None:
                ctx.undecided(R, inst, 'source index `%s` is not linear in the row-group variables' % show(total), tu.loc(n))
                good = False
                continue
            if cg_[0] != cr_[0]:
                ctx.violation(R, inst, 'source index `%s`: the start of a row group and the row inside the group move the source by '
                              'different amounts (%s vs %s components): rows are taken from the wrong place'
                              % (show(total), show(cg_[0]), show(cr_[0])), tu.loc(n), key=keyb + 'row-stride')
                good = False
                continue
            if nest['improper']:
                S_ = nest['gstep']
                ctx.violation(R, inst, 'rows are converted in groups of %d: the source row is %s + %s for %s in [0, %d) in every group, '
                              'also in the last one, which has only min(%d, sizeY - %s) rows: for sizeY not a multiple of %d rows up '
                              'to sizeY + %d are read, beyond the image (e.g. sizeY = 1)'
                              % (S_, nest['g'][1], ya[1], ya[1], S_, S_, nest['g'][1], S_, S_ - 2), tu.loc(n), key=keyb + 'row-range')
                good = False
                continue
            total = total.subst(nest['g'], Poly.const(0))
        if va is not None:
            # strip-mined column loop: logical column = v + x; both must advance the source by one pixel
            cv_ = total.coeff(va)
            cx_ = total.coeff(xa)
            if cv_ is None or cx_ is None:
                ctx.undecided(R, inst, 'source index `%s` is not linear in the span variables' % show(total), tu.loc(n))
                good = False
                continue
            if cv_[0] != cx_[0]:
                ctx.violation(R, inst, 'source index `%s`: inside a span the source advances %s component(s) per pixel, from span to '
                              'span %s component(s) per pixel; a %s pixel holds %d %s component(s), so from the second span on '
                              'the wrong pixels are read' % (show(total), show(cx_[0]), show(cv_[0]), pix_t, psz // unit, comp_t),
                              tu.loc(n), key=keyb + 'pixel-stride')
                good = False
                continue
            # fold the span start into the column variable
            total = total.subst(va, Poly.const(0))
        if ycount != sy or xcount != sx or ccount != Poly.const(N):
            ctx.violation(R, inst, 'the loops run over %s x %s x %s; required sizeY x sizeX x N_COMP = %s x %s x %d'
                          % (show(ycount), show(xcount), show(ccount), show(sy), show(sx), N), tu.loc(n), key=keyb + 'loop-range')
            good = False
            continue
        # decompose: total = per_pixel * sizeX * row(y) + per_pixel * x + channel(c)
        cx = total.coeff(xa)
        if cx is None:
            ctx.undecided(R, inst, 'source index `%s` is not linear in x' % show(total), tu.loc(n))
            good = False
            continue
        if cx[0] != Poly.const(per_pixel):
            ctx.violation(R, inst, 'source index `%s` advances %s component(s) per pixel; a %s pixel holds %d %s component(s)'
                          % (show(total), show(cx[0]), pix_t, per_pixel, comp_t), tu.loc(n), key=keyb + 'pixel-stride')
            good = False
            continue
        rest = cx[1]
        cy = rest.coeff(ya)
        if cy is None:
            ctx.undecided(R, inst, 'source index `%s` is not linear in y' % show(total), tu.loc(n))
            good = False
            continue
        # channel part: what remains after removing the row part.  row part = terms divisible by sizeX*per_pixel
        row_terms = {}
        chan_terms = {}
        for mon, v in rest.t.items():
            if sx.t and list(sx.t)[0][0] in mon:
                row_terms[mon] = v
            else:
                chan_terms[mon] = v
        rowp, chan = Poly(row_terms), Poly(chan_terms)
        if ya in chan.atoms():
            ctx.undecided(R, inst, 'source index `%s`: the row variable occurs outside the row term' % show(total), tu.loc(n))
            good = False
            continue
        cb = bounds_over(chan, [(ca, Poly.const(N))])
        if cb is None or cb[0].const_value() is None or cb[1].const_value() is None:
            ctx.undecided(R, inst, 'channel offset `%s` is not an integer interval over c in [0,%d)' % (show(chan), N), tu.loc(n))
            good = False
            continue
        lo, hi = cb[0].const_value(), cb[1].const_value()
        if lo < 0 or hi >= per_pixel:
            ctx.violation(R, inst, 'channel offset `%s` ranges over [%d, %d] for c in [0, %d) but a %s pixel has only the '
                          'components 0..%d: the read leaves the pixel (and, for the last pixel, the image)'
                          % (show(chan), lo, hi, N, pix_t, per_pixel - 1), tu.loc(n), key=keyb + 'channel-offset')
            good = False
        cc = chan.coeff(ca)
        if N > 1 and (cc is None or cc[0].const_value() in (0, None)):
            ctx.violation(R, inst, 'channel offset `%s` does not select a different component for every c' % show(chan), tu.loc(n),
                          key=keyb + 'channel-select')
            good = False
        # row selector: rowp == per_pixel * sizeX * row(y), row(y) in [0, sizeY)
        sxatom = list(sx.t)[0][0]
        rco = rowp.coeff(sxatom)
        if rco is None or rco[1] != Poly():
            ctx.undecided(R, inst, 'row term `%s` is not a multiple of sizeX' % show(rowp), tu.loc(n))
            good = False
            continue
        rowsel = rco[0]
        # divide by per_pixel
        if any(v % per_pixel for v in rowsel.t.values()):
            ctx.violation(R, inst, 'row start `%s` is not a whole number of pixels' % show(rowp), tu.loc(n), key=keyb + 'row-stride')
            good = False
            continue
        rowsel = Poly({m: v // per_pixel for m, v in rowsel.t.items()})
        want = (sy - 1 - Poly.atom(ya)) if flip else Poly.atom(ya)
        other = Poly.atom(ya) if flip else (sy - 1 - Poly.atom(ya))
        if rowsel == want:
            pass
        elif rowsel == other:
            ctx.violation(R, inst, 'row selector is `%s` although FLIP is %s' % (show(rowsel), targs[4]), tu.loc(n), key=keyb + 'flip')
            good = False
        else:
            rb = bounds_over(rowsel, [(ya, sy)])
            inside = rb is not None and nonneg(rb[0]) and nonneg(sy - 1 - rb[1])
            if rb is not None and not inside and (rb[0].const_value() is not None or (sy - 1 - rb[1]).const_value() is not None):
                ctx.violation(R, inst, 'row selector `%s` ranges over [%s, %s]; the image has rows 0..sizeY-1'
                              % (show(rowsel), show(rb[0]), show(rb[1])), tu.loc(n), key=keyb + 'row-range')
            else:
                ctx.undecided(R, inst, 'row selector `%s` is neither y nor sizeY-1-y' % show(rowsel), tu.loc(n))
            good = False
    # ---- row buffer: allocation, stores, fwrite
    if len(allocs) > 1:
        stored = {w[0][1] for w in writes if w[0][0] == 'ptr'}
        allocs = [a for a in allocs if ('@' + a[0].get('name', 'buf')) in stored]
    if len(allocs) != 1:
        ctx.undecided(R, inst, 'expected one row buffer that the converted components are stored into, found %d' % len(allocs), tu.fn_loc(f))
        return
    vd, pv, _ = allocs[0]
    abytes = pv[1]
    want_bytes = sx * (N * csz)
    bufname = '@' + vd.get('name', 'buf')
    dst = [w for w in writes if w[0][0] == 'ptr' and w[0][1] == bufname]
    if len(dst) != 1:
        ctx.undecided(R, inst, 'expected one store into the row buffer, found %d' % len(dst), tu.fn_loc(f))
        return
    bp, ix, n, stack = dst[0]
    try:
        nest = loop_nest(stack)
    except Undecided as u:
        ctx.undecided(R, inst, 'store into the row buffer: %s' % u, tu.loc(n))
        return
    span = nest['span']
    rows_buf = 1
    if nest.get('g') is not None:
        if nest['improper']:
            return          # reported with the reads
        rows_buf = nest['gstep']
        want_bytes = want_bytes * rows_buf          # the staging buffer holds a whole group of rows
    if span is None:
        # the buffer(s) the row is staged in, each with the condition under which it is used
        alt = img.alts.get('@' + vd.get('name', 'buf'))
        cases_ = [([], abytes, 'the row buffer')] if alt is None else \
            [([negate(alt[0][0])], abytes, 'the fixed buffer `%s` (used when %s)' % (vd.get('name'), show_rel(negate(alt[0][0])))),
             (list(alt[0]), alt[1], 'the heap block (used when %s)' % show_rel(alt[0][0]))]
        for facts_, bytes_, what_ in cases_:
            d_ = want_bytes - bytes_
            if d_ == Poly():
                continue
            ub_ = upper_bound(d_, [p_ for p_, op_ in facts_ if op_ == '<='], 2 ** 31 - 1)
            if ub_ is not None and ub_ <= 0:
                continue
            wit = small_model(list(facts_) + [(-d_ + 1, '<=')])
            if wit is None:
                ctx.undecided(R, inst, '%s holds `%s` bytes; whether a row of %s bytes always fits is not decided'
                              % (what_, show(bytes_), show(want_bytes)), tu.fn_loc(f))
            else:
                ctx.violation(R, inst, '%s holds `%s` bytes; a row needs N_COMP*sizeX*sizeof(COMP_T) = %s bytes, which is more e.g. for '
                              '%s: the conversion writes beyond the buffer' % (what_, show(bytes_), show(want_bytes),
                              ', '.join('%s = %d' % (atom_name(a), v_) for a, v_ in sorted(wit.items(), key=lambda kv: repr(kv[0])))),
                              tu.fn_loc(f), key=keyb + 'row-buffer-size')
            good = False
        per_flush = want_bytes
        if nest.get('g') is not None:
            want_bytes = sx * (N * csz)
            per_flush = Poly.atom(nest['rspan']) * want_bytes       # the rows of this group
        flush_depth = 1
        xlimit = sx
    else:
        S = loops[nest['vid']]['step']
        need = N * S * csz
        if abytes.const_value() is None or abytes.const_value() < need:
            ctx.violation(R, inst, 'the staging buffer holds `%s` bytes; a span of %d pixels needs N_COMP*%d*sizeof(COMP_T) = %d'
                          % (show(abytes), S, S, need), tu.fn_loc(f), key=keyb + 'row-buffer-size')
            good = False
        per_flush = Poly.atom(span) * (N * csz)
        flush_depth = 2
        xlimit = Poly.const(S)
    xa, ca = nest['x'], nest['c']
    want_ix = Poly.atom(xa) * N + Poly.atom(ca)
    if nest.get('g') is not None:
        want_ix = want_ix + Poly.atom(nest['y']) * sx * N          # row r of the group
    try:
        out_ix = resolve_carry(bp[2] + ix)
    except Undecided as u:
        ctx.undecided(R, inst, 'store into the row buffer: %s' % u, tu.loc(n))
        return
    bp = (bp[0], bp[1], out_ix, bp[3])
    ix = Poly.const(0)
    if bp[2] + ix != want_ix:
        b = bounds_over(bp[2] + ix, [(xa, xlimit), (ca, Poly.const(N))])
        ctx.violation(R, inst, 'output index is `%s`; required N_COMP*x + c = %s so that the elements of the row buffer are each '
                      'written once%s' % (show(bp[2] + ix), show(want_ix),
                                         ' (range [%s, %s])' % (show(b[0]), show(b[1])) if b else ''),
                      tu.loc(n), key=keyb + 'output-index')
        good = False
    if nest['ycount'] != sy or nest['xcount'] != sx or nest['ccount'] != Poly.const(N):
        ctx.violation(R, inst, 'the stores run over %s x %s x %s; required sizeY x sizeX x N_COMP'
                      % (show(nest['ycount']), show(nest['xcount']), show(nest['ccount'])), tu.loc(n), key=keyb + 'loop-range')
        good = False
    if len(fwrites) > 1 and len([fw_ for fw_ in fwrites if fw_[2] is not None]) >= 1:
        fwrites = [fw_ for fw_ in fwrites if fw_[2] is not None]      # a write of text (the header) is not a pixel row
    if len(fwrites) != 1:
        ctx.undecided(R, inst, 'expected one fwrite, found %d' % len(fwrites), tu.fn_loc(f))
        return
    fw, fstack, fp, e1, e2 = fwrites[0]
    if fp is None or e1 is None or e2 is None:
        ctx.undecided(R, inst, 'fwrite arguments have no normal form', tu.loc(fw))
        good = False
    else:
        if not (fp[0] == 'ptr' and fp[1] == bufname and fp[2] == Poly.const(0)) or e1 * e2 != per_flush:
            ctx.violation(R, inst, 'fwrite emits `%s` bytes from %s+%s per %s; required %s bytes from the start of the row buffer'
                          % (show(e1 * e2), fp[1], show(fp[2]), 'row' if span is None else 'span', show(per_flush)), tu.loc(fw),
                          key=keyb + 'row-bytes')
            good = False
        if list(fstack) != list(stack[:flush_depth]):
            ctx.violation(R, inst, 'fwrite is executed inside %d loop(s); required once per %s (directly inside the %s loop)'
                          % (len(fstack), 'row' if span is None else 'span', 'y' if span is None else 'span'), tu.loc(fw),
                          key=keyb + 'row-bytes-per-row')
            good = False
        else:
            # the flush must come after the stores of the same row / span
            par = loops[stack[flush_depth - 1]]['node']
            order = [x.get('id') for x in tu.walk(par)]
            if fw['id'] in order and n['id'] in order and order.index(fw['id']) < order.index(n['id']):
                ctx.violation(R, inst, 'fwrite precedes the conversion of the row it writes', tu.loc(fw), key=keyb + 'row-bytes-order')
                good = False
    if good:
        ctx.ok(R, inst, 'source = pixel[(%s)*sizeX + x] component channel(c) in [0,%d); output index N*x+c; %s bytes per %s'
               % ('sizeY-1-y' if flip else 'y', P, show(per_flush), 'row' if span is None else 'span of min(sizeX-x0,%d) pixels'
                  % loops[nest['vid']]['step']), tu.fn_loc(f))


# =====================================================================================================
#  R-C20-2: format table
# =====================================================================================================
FORMATS = {
    # magic: (component type, components, rows flipped, third header line is negative scale (PFM) or maxval 255)
    'P6': ('unsigned char', 3, True, 'maxval'),
    'P5': ('unsigned char', 1, True, 'maxval'),
    'Pf': ('float', 1, False, 'scale'),
    'PF': ('float', 3, False, 'scale'),
    'PF4': ('float', 4, False, 'scale'),
}
VEC = 'rkcommon::math::vec_t<float, %s, void>'
WRAPPER_FORMAT = {
    ('writePPM', 'unsigned int'): 'P6',
    ('writePGM', 'unsigned int'): 'P5',
    ('writePFM', 'float'): 'Pf',
    ('writePFM', VEC % '3, false'): 'PF',
    ('writePFM', VEC % '3, true'): 'PF',
    ('writePFM', VEC % '4, false'): 'PF4',
}


def c_string(value):
    try:
        return ast.literal_eval(value)
    except Exception:
        return None


def header_template(tu, f):
    """How writeImage produces the header text: a list of ('param', decl id) [a string parameter inserted as is / used as
    the printf format], ('int', decl id) [an int parameter printed in decimal], ('lit', text); plus the way it is formatted
    ('printf' | 'ostream') and the local stream variable for the ostream form.  None if not recognised."""
    g = tu.cfg(f)
    strp = {p['id'] for p in f['params'] if p['ct'].replace('const', '').replace(' ', '') == 'char*'}
    intp = {p['id'] for p in f['params'] if p['ct'].replace('const ', '') == 'int'}
    for b, i, n in g.stmts():
        if n.get('kind') == 'CallExpr' and tu.sd(n).get('q') in ('fprintf', 'std::fprintf', 'snprintf', 'std::snprintf'):
            a = tu.call_parts(n)[2]
            k0 = 1 if 'snprintf' not in tu.sd(n).get('q') else 2
            if len(a) > k0 and tu.ref_decl(a[k0]) in strp:
                return {'kind': 'printf', 'items': [('param', tu.ref_decl(a[k0]))], 'ints': [tu.ref_decl(x) for x in a[k0 + 1:]], 'node': n}
    # std::ostringstream S; S << ...; ... S.str()
    svars = [x for x in tu.walk(tu.body(f)) if x.get('kind') == 'VarDecl' and
             re.search(r'ostringstream|stringstream', x.get('type', {}).get('qualType', ''))]
    probe = JsonFlow(tu, None, None, None)
    for sv in svars:
        items, ints, nodes = [], [], []
        ok = True
        for b, i, n in g.stmts():
            if n.get('kind') in ('CXXOperatorCallExpr', 'CXXMemberCallExpr') and tu.sd(n).get('q', '').split('::')[-1] == 'operator<<' \
                    and probe.stream_root(n) == sv['id']:
                o = tu.strip(probe.operand(n), casts=True)
                nodes.append(n)
                if o is None:
                    ok = False
                elif o.get('kind') == 'StringLiteral' and c_string(o.get('value')) is not None:
                    items.append(('lit', c_string(o.get('value'))))
                elif o.get('kind') == 'CharacterLiteral':
                    items.append(('lit', chr(o.get('value', 63))))
                elif o.get('kind') == 'DeclRefExpr' and o.get('referencedDecl', {}).get('id') in strp:
                    items.append(('param', o['referencedDecl']['id']))
                elif o.get('kind') == 'DeclRefExpr' and o.get('referencedDecl', {}).get('id') in intp:
                    items.append(('int', o['referencedDecl']['id']))
                    ints.append(o['referencedDecl']['id'])
                else:
                    ok = False
        if items and ok:
            return {'kind': 'ostream', 'items': items, 'ints': ints, 'node': nodes[0], 'stream': sv, 'nodes': nodes}
    return None


def check_wrappers(ctx, tu):
    R = 'R-C20-2'
    n = 0
    headers_of = {}
    for f in sorted(tu.functions.values(), key=lambda x: (x['f'], x['l'])):
        name = f['q'].split('::')[-1]
        if not f['q'].startswith(UTIL + 'write') or name == 'writeImage' or f['dep'] or tu.body(f) is None:
            continue
        pix = [p for p in f['params'] if p['ct'].rstrip().endswith('*')]
        if len(pix) != 1:
            continue
        pt = re.sub(r'^const\s+', '', pix[0]['ct'].rstrip()[:-1].strip())
        inst = '%s(%s)' % (name, pt.replace('rkcommon::math::', ''))
        keyb = '%s|%s|%s|' % (R, tu.fn_file(f), name)
        n += 1
        # the call of writeImage, possibly behind forwarding helpers of the utility namespace (parameters -> arguments)
        found = []

        def find_calls(fn, env, depth):
            for c in tu.walk(tu.body(fn)):
                if c.get('kind') != 'CallExpr':
                    continue
                q = tu.sd(c).get('q', '')
                if q == UTIL + 'writeImage':
                    found.append((c, env))
                elif q.startswith(UTIL) and depth < 4:
                    cf = tu.callee_fn(c)
                    if cf is not None and tu.body(cf) is not None and cf['id'] != fn['id']:
                        env2 = dict(env)
                        for p_, a in zip(cf.get('params', []), tu.call_parts(c)[2]):
                            env2[p_['id']] = (a, env)
                        find_calls(cf, env2, depth + 1)

        def resolve(a, env, depth=0):
            """follow helper parameters back to the wrapper's own expression"""
            while a is not None and depth < 8:
                depth += 1
                x = tu.strip(a, casts=True)
                if x is not None and x.get('kind') == 'DeclRefExpr' and x.get('referencedDecl', {}).get('id') in env:
                    a, env = env[x['referencedDecl']['id']]
                    continue
                return x
            return None

        find_calls(f, {}, 0)
        if len(found) != 1:
            ctx.undecided(R, inst, 'expected exactly one call of writeImage (helpers followed), found %d' % len(found), tu.fn_loc(f))
            continue
        call, cenv = found[0]
        callee = tu.callee_fn(call)
        if callee is None or len(callee.get('targs') or []) != 5:
            ctx.undecided(R, inst, 'the writeImage instantiation called is not in the facts', tu.loc(call))
            continue
        comp_t, N, pix_t, P, flip = callee['targs'][0], int(callee['targs'][1]), callee['targs'][2], int(callee['targs'][3]), \
            callee['targs'][4] == 'true'
        args = tu.call_parts(call)[2]
        good = True
        # arguments handed through by role: file name, the two sizes in order, the pixel pointer; text parameters are literals

        def role(ct):
            c_ = ct.replace('const ', '').replace('const', '').strip()
            if 'basic_string' in c_ or 'std::string' in c_:
                return 'file'
            if c_ == 'int':
                return 'int'
            if c_.replace(' ', '') == 'char*':
                return 'text'
            return 'pixel' if c_.endswith('*') else 'other'

        wroles, croles = {}, {}
        for p_ in f['params']:
            wroles.setdefault(role(p_['ct']), []).append(p_)
        for i_, p_ in enumerate(callee['params']):
            croles.setdefault(role(p_['ct']), []).append((i_, p_))
        if len(args) != len(callee['params']) or any(len(wroles.get(r_, [])) != len(croles.get(r_, [])) for r_ in ('file', 'int', 'pixel')) \
                or len(wroles.get('int', [])) != 2:
            ctx.undecided(R, inst, 'unexpected parameter / argument count', tu.loc(call))
            continue
        for r_ in ('file', 'int', 'pixel'):
            for wp_, (ci_, cp_) in zip(wroles[r_], croles[r_]):
                ra = resolve(args[ci_], cenv)
                if ra is None or ra.get('kind') != 'DeclRefExpr' or ra.get('referencedDecl', {}).get('id') != wp_['id']:
                    ctx.violation(R, inst, 'argument %d of writeImage is `%s`; required the wrapper\'s `%s`'
                                  % (ci_ + 1, tu.show(args[ci_]), wp_['name']), tu.loc(call), key=keyb + 'argument-%d' % (ci_ + 1))
                    good = False
        tmpl = header_template(tu, callee)
        if tmpl is None:
            ctx.undecided(R, inst, 'how the called writeImage instantiation produces its header is not recognised', tu.fn_loc(callee))
            continue
        pieces = []
        for kind_, v_ in tmpl['items']:
            if kind_ == 'lit':
                pieces.append(v_)
            elif kind_ == 'int':
                pieces.append('%i')
            else:
                ci_ = [i_ for i_, p_ in enumerate(callee['params']) if p_['id'] == v_]
                hl_ = resolve(args[ci_[0]], cenv) if ci_ else None
                if hl_ is not None and hl_.get('kind') in ('CallExpr', 'CXXMemberCallExpr') and not tu.call_parts(hl_)[2]:
                    hf = tu.callee_fn(hl_)
                    rets = [r for r in tu.walk(tu.body(hf)) if r.get('kind') == 'ReturnStmt'] if hf is not None and tu.body(hf) is not None else []
                    if len(rets) == 1 and tu.kids(rets[0]):
                        hl_ = tu.strip(tu.kids(rets[0])[0], casts=True)
                pieces.append(c_string(hl_.get('value')) if hl_ is not None and hl_.get('kind') == 'StringLiteral' else None)
        hdr = ''.join(pieces) if all(p_ is not None for p_ in pieces) else None
        hl = None
        if False:
            pass
        if hdr is None:
            ctx.undecided(R, inst, 'header is not a string literal', tu.loc(call))
            continue
        headers_of.setdefault(callee['id'], []).append(hdr)
        m = re.match(r'^(\S+)\n(.*)\n(.*)\n$', hdr, re.S)
        if not m:
            ctx.violation(R, inst, 'header %r is not three newline-terminated lines (magic, width height, maxval/scale)' % hdr,
                          tu.loc(call), key=keyb + 'header-shape')
            continue
        magic, dims, third = m.groups()
        fmt = FORMATS.get(magic)
        expect_magic = WRAPPER_FORMAT.get((name, pt))
        if expect_magic is None:
            ctx.undecided(R, inst, 'no format is specified for this wrapper / pixel type', tu.fn_loc(f))
            continue
        if fmt is None or magic != expect_magic:
            ctx.violation(R, inst, 'magic number is %r; the format written by %s is %r' % (magic, inst, expect_magic), tu.loc(call),
                          key=keyb + 'magic')
            continue
        if not re.match(r'^%[id] %[id]$', dims):
            ctx.violation(R, inst, 'dimension line is %r; required two integer conversions `%%i %%i` (width height)' % dims,
                          tu.loc(call), key=keyb + 'dimensions')
            good = False
        if fmt[3] == 'maxval' and third != '255':
            ctx.violation(R, inst, 'maxval line is %r; 8-bit components need 255' % third, tu.loc(call), key=keyb + 'maxval')
            good = False
        if fmt[3] == 'scale' and not re.match(r'^-\d+(\.\d*)?$', third):
            ctx.violation(R, inst, 'scale line is %r; little-endian float data needs a negative scale' % third, tu.loc(call),
                          key=keyb + 'scale')
            good = False
        if (comp_t, N) != (fmt[0], fmt[1]):
            ctx.violation(R, inst, 'format %s holds %d %s component(s) per pixel but writeImage is instantiated with %d x %s'
                          % (magic, fmt[1], fmt[0], N, comp_t), tu.loc(call), key=keyb + 'components')
            good = False
        if flip != fmt[2]:
            ctx.violation(R, inst, 'format %s stores rows %s but FLIP is %s' %
                          (magic, 'top-down, so the bottom-up input must be flipped' if fmt[2] else 'bottom-up, as given',
                           callee['targs'][4]), tu.loc(call), key=keyb + 'flip')
            good = False
        if pix_t != pt:
            ctx.violation(R, inst, 'writeImage is instantiated for pixel type %s, the wrapper receives %s' % (pix_t, pt), tu.loc(call),
                          key=keyb + 'pixel-type')
            good = False
        if good:
            ctx.ok(R, inst, '%s: %d x %s, %s, header %r' % (magic, N, comp_t, 'flipped' if flip else 'as given', hdr), tu.fn_loc(f))
    ctx.floor(R, n, 6, 'writePPM, writePGM and four writePFM specialisations')
    return headers_of


def check_header_use(ctx, tu, f, headers=None):
    """writeImage itself: fprintf(file, header, sizeX, sizeY) precedes the rows; the file is closed"""
    R = 'R-C20-2'
    inst = 'writeImage<%s> header' % ', '.join(f.get('targs') or [])
    keyb = '%s|%s|writeImage|' % (R, tu.fn_file(f))
    g = tu.cfg(f)
    pids = {p['name']: p['id'] for p in f['params']}
    ints = [p['id'] for p in f['params'] if p['ct'].replace('const ', '') == 'int']
    hdrp = [p['id'] for p in f['params'] if p['ct'].replace('const', '').replace(' ', '') == 'char*']
    calls = [(b, i, n) for b, i, n in g.stmts() if n.get('kind') == 'CallExpr' and tu.sd(n).get('q') in ('fprintf', 'std::fprintf')]
    hc = [(b, i, n) for b, i, n in calls if len(tu.call_parts(n)[2]) >= 2 and hdrp and tu.ref_decl(tu.call_parts(n)[2][1]) == hdrp[0]]
    sn = [(b, i, n) for b, i, n in g.stmts() if n.get('kind') == 'CallExpr' and tu.sd(n).get('q') in ('snprintf', 'std::snprintf')
          and len(tu.call_parts(n)[2]) >= 3 and hdrp and tu.ref_decl(tu.call_parts(n)[2][2]) == hdrp[0]]
    tmpl = header_template(tu, f)
    if not hc and not sn and tmpl is not None and tmpl['kind'] == 'ostream' and len(ints) == 2:
        sv = tmpl['stream']
        first = tmpl['node']
        if tmpl['ints'] != ints:
            ctx.violation(R, inst, 'the header prints the int parameters in the order `%s`; required width (sizeX) then height (sizeY)'
                          % ', '.join(str(tu.node(i_).get('name') if tu.node(i_) else i_) for i_ in tmpl['ints']), tu.loc(first),
                          key=keyb + 'header-arguments')
            return
        # numbers put into a std::ostream are formatted with the stream's locale: the global locale unless the stream is
        # imbued with the classic one - digit grouping (1,024) would corrupt the size line
        imbued = [(bb, ii, nn) for bb, ii, nn in g.stmts() if nn.get('kind') == 'CXXMemberCallExpr' and
                  tu.sd(nn).get('q', '').split('::')[-1] == 'imbue' and tu.call_parts(nn)[1] is not None and
                  tu.ref_decl(tu.call_parts(nn)[1]) == sv['id'] and
                  any(y.get('kind') == 'CallExpr' and tu.sd(y).get('q') == 'std::locale::classic' for y in tu.walk(nn))]
        w1 = g.where(first['id'])
        if not imbued or w1 is None or not all(g.dominates((bb.id, ii), w1) for bb, ii, nn in imbued[:1]):
            ctx.violation(R, inst, 'the header is assembled in the std::ostringstream `%s`, into which sizeX / sizeY are inserted as '
                          'numbers: a string stream formats numbers with the global C++ locale, so an application locale with digit '
                          'grouping writes e.g. `1,024 768`; the stream is not imbued with std::locale::classic() first'
                          % sv.get('name'), tu.loc(first), key=keyb + 'header-locale')
            return
        outs_ = [(bb, ii, nn) for bb, ii, nn in g.stmts() if nn.get('kind') == 'CallExpr' and
                 tu.sd(nn).get('q') in ('fputs', 'std::fputs', 'fwrite', 'std::fwrite', 'fprintf', 'std::fprintf') and
                 any(y.get('kind') == 'CXXMemberCallExpr' and tu.sd(y).get('q', '').split('::')[-1] in ('data', 'c_str', 'str')
                     and 'basic_string' in tu.sd(y).get('q', '') or
                     (y.get('kind') == 'CXXMemberCallExpr' and tu.sd(y).get('q', '').split('::')[-1] == 'str')
                     for a_ in tu.call_parts(nn)[2][:1] for y in tu.walk(a_))]
        fw = [(bb, ii) for bb, ii, nn in g.stmts() if nn.get('kind') == 'CallExpr' and tu.sd(nn).get('q') in ('fwrite', 'std::fwrite')
              and not any(nn['id'] == o_[2]['id'] for o_ in outs_)]
        if len(outs_) != 1:
            ctx.undecided(R, inst, 'the text of the header stream is not written to the file exactly once', tu.loc(first))
            return
        if not fw or not all(g.dominates((outs_[0][0].id, outs_[0][1]), (bb.id, ii)) for bb, ii in fw):
            ctx.violation(R, inst, 'the header is not written before the pixel rows on every path', tu.loc(first), key=keyb + 'header-order')
            return
        ctx.ok(R, inst, 'header assembled in a string stream imbued with the classic locale and written before every row', tu.loc(first))
        return
    if len(hc) + len(sn) != 1 or len(ints) != 2:
        ctx.undecided(R, inst, 'expected one fprintf / snprintf of the header parameter', tu.fn_loc(f))
        return
    if sn:
        b, i, n = sn[0]
        a = tu.call_parts(n)[2]
        cap = tu.sd(tu.strip(a[1])).get('cv')
        bufd = tu.ref_decl(a[0])
        if cap is None or bufd is None:
            ctx.undecided(R, inst, 'buffer or capacity of the snprintf of the header is not a local array with a constant size', tu.loc(n))
            return
        cap = int(cap)
        if [tu.ref_decl(x) for x in a[3:]] != ints:
            ctx.violation(R, inst, 'the header conversions are fed `%s`; required (sizeX, sizeY) = width then height'
                          % ', '.join(tu.show(x) for x in a[3:]), tu.loc(n), key=keyb + 'header-arguments')
            return
        # the formatted text must fit for every int width / height, or truncation must be detected
        longest = None
        for h in (headers or []):
            fixed = len(re.sub(r'%[id]', '', h))
            need = fixed + 2 * 10 + 1          # two non-negative ints of up to 10 digits, terminating NUL
            if longest is None or need > longest[0]:
                longest = (need, h)
        if longest is None:
            ctx.undecided(R, inst, 'the header strings passed to this instantiation are not known', tu.loc(n))
            return
        detected = False
        holders = {n['id']}
        par = tu.par(n)
        hops = 0
        while par is not None and hops < 6 and par.get('kind') in ('ImplicitCastExpr', 'ParenExpr'):
            par = tu.par(par)
            hops += 1
        if par is not None and par.get('kind') == 'VarDecl':
            holders.add(par['id'])
        for x in tu.walk(tu.body(f)):
            if x.get('kind') == 'BinaryOperator' and x.get('opcode') in ('<', '>', '<=', '>=', '==', '!='):
                l_, r_ = (tu.strip(y, casts=True) for y in tu.kids(x))
                for u, v in ((l_, r_), (r_, l_)):
                    isres = u is not None and (u.get('id') in holders or (u.get('kind') == 'DeclRefExpr' and
                                                                           u.get('referencedDecl', {}).get('id') in holders))
                    cv_ = tu.sd(v).get('cv') if v is not None else None
                    if cv_ is None and v is not None:
                        pv_ = Evaluator(tu).ev(v)
                        cv_ = str(pv_.const_value()) if pv_ is not None and pv_.const_value() is not None else None
                    if isres and cv_ is not None and int(cv_) in (cap, cap - 1):
                        detected = True
        if longest[0] > cap and not detected:
            ctx.violation(R, inst, 'the header is formatted with snprintf into `%s`, which holds %d characters; %r with two 10-digit '
                          'sizes needs %d (with the terminator) and the result of snprintf is not compared with the capacity: a '
                          'longer header is silently cut off, the file starts with a wrong or incomplete size line'
                          % (tu.show(a[0]), cap, longest[1], longest[0]), tu.loc(n), key=keyb + 'header-truncated')
            return
        outs_ = [(bb, ii, nn) for bb, ii, nn in g.stmts() if nn.get('kind') == 'CallExpr' and
                 tu.sd(nn).get('q') in ('fputs', 'std::fputs', 'fwrite', 'std::fwrite', 'fprintf', 'std::fprintf') and
                 any(tu.ref_decl(y) == bufd for y in tu.call_parts(nn)[2])]
        fw = [(bb, ii) for bb, ii, nn in g.stmts() if nn.get('kind') == 'CallExpr' and tu.sd(nn).get('q') in ('fwrite', 'std::fwrite')
              and not any(tu.ref_decl(y) == bufd for y in tu.call_parts(nn)[2])]
        if len(outs_) != 1 or not g.dominates((b.id, i), (outs_[0][0].id, outs_[0][1])):
            ctx.undecided(R, inst, 'the formatted header is not written to the file exactly once', tu.loc(n))
            return
        if not fw or not all(g.dominates((outs_[0][0].id, outs_[0][1]), (bb.id, ii)) for bb, ii in fw):
            ctx.violation(R, inst, 'the header is not written before the pixel rows on every path', tu.loc(n), key=keyb + 'header-order')
            return
        ctx.ok(R, inst, 'header formatted into %d characters (longest possible %d%s) and written before every fwrite'
               % (cap, longest[0], ', truncation detected' if detected else ''), tu.loc(n))
        return
    b, i, n = hc[0]
    a = tu.call_parts(n)[2]
    got = [tu.ref_decl(x) for x in a[2:]]
    if got != ints:
        ctx.violation(R, inst, 'the header conversions are fed `%s`; required (sizeX, sizeY) = width then height'
                      % ', '.join(tu.show(x) for x in a[2:]), tu.loc(n), key=keyb + 'header-arguments')
        return
    fw = [(bb, ii) for bb, ii, nn in g.stmts() if nn.get('kind') == 'CallExpr' and tu.sd(nn).get('q') in ('fwrite', 'std::fwrite')]
    for bb, ii, nn in g.stmts():
        if nn.get('kind') in ('CallExpr', 'CXXOperatorCallExpr', 'CXXMemberCallExpr'):
            cf_ = tu.callee_fn(nn)
            if cf_ is not None and tu.body(cf_) is not None and cf_['id'] != f['id'] and \
                    (cf_['q'].startswith(UTIL) or 'operator()' in cf_['q']) and \
                    any(y.get('kind') == 'CallExpr' and tu.sd(y).get('q') in ('fwrite', 'std::fwrite') for y in tu.walk(tu.body(cf_))):
                fw.append((bb, ii))       # rows are written by a lambda / helper called here
    reach_ = g.reachable()
    fw = [(bb, ii) for bb, ii in fw if bb.id in reach_]      # branches removed by a compile-time condition do not count
    if not fw:
        ctx.undecided(R, inst, 'no fwrite of the pixel rows found (directly or in a lambda / helper)', tu.loc(n))
        return
    if not all(g.dominates((b.id, i), (bb.id, ii)) for bb, ii in fw):
        ctx.violation(R, inst, 'the header is not written before the pixel rows on every path', tu.loc(n), key=keyb + 'header-order')
        return
    ctx.ok(R, inst, 'fprintf(file, header, sizeX, sizeY) dominates every fwrite', tu.loc(n))


def check_purity(ctx, tu):
    """R-C20-5: the file written depends only on the arguments: no object with static storage duration is written
    on the way from a format wrapper through writeImage and its helpers"""
    R = 'R-C20-5'
    ctx.describe(R, 'writeImage, the format wrappers and their helpers keep no mutable state with static / thread storage '
                 'duration (two images written at the same time, or one after the other, cannot influence each other)')
    n = 0
    seen = set()
    for f in sorted(tu.functions.values(), key=lambda x: (x['f'], x['l'])):
        if f['dep'] or tu.body(f) is None or not f['q'].startswith(UTIL) or tu.fn_file(f) != IMG_H:
            continue
        n += 1
        pat = re.sub(r'<.*', '', f['q'].replace(UTIL, ''))
        inst = '%s %s' % (f['q'].replace(UTIL, ''), ', '.join(f.get('targs') or []))
        bad = []
        for x in tu.walk(tu.body(f)):
            if x.get('kind') == 'VarDecl' and (x.get('storageClass') == 'static' or x.get('tls')):
                qt = x.get('type', {}).get('qualType', '')
                if qt.startswith('const ') or x.get('constexpr'):
                    continue
                bad.append(x)
        for x in bad:
            key = '%s|%s|%s|static-state' % (R, tu.fn_file(f), pat)
            if key in seen:
                continue
            seen.add(key)
            ctx.violation(R, inst, 'the local `%s` (%s) has static storage duration and is written while an image is converted: '
                          'all calls share it, so two threads writing images at the same time convert their rows into the same '
                          'memory (and a resize by one invalidates the pointer used by the other); the file no longer depends on '
                          'the arguments alone' % (x.get('name'), x.get('type', {}).get('qualType', '?')), tu.fn_loc(f), key=key)
        if not bad:
            ctx.ok(R, inst, 'no mutable static / thread-local state', tu.fn_loc(f))
    ctx.floor(R, n, 12, 'six writeImage instantiations and six format wrappers')


# =====================================================================================================
#  R-C20-12: the image is written to the file the caller named
# =====================================================================================================
NAME_PARTS = {'substr', 'erase', 'replace', 'resize', 'pop_back', 'assign'}


def check_image_destination(ctx, tu, f):
    """writeImage produces its output in the file `fileName`: either that file itself is opened, or a temporary whose name
    contains the complete `fileName` (so that distinct targets never share a temporary) and which is renamed onto it"""
    R = 'R-C20-12'
    inst = 'writeImage<%s> destination' % ', '.join(f.get('targs') or [])
    keyb = '%s|%s|writeImage|' % (R, tu.fn_file(f))
    names = [p for p in f.get('params', []) if 'basic_string' in p['ct'] or p['ct'].replace('const ', '').startswith('std::string')]
    if len(names) != 1:
        ctx.undecided(R, inst, 'cannot identify the file name parameter', tu.fn_loc(f))
        return
    name_id = names[0]['id']

    def unwrap(e):
        x = tu.strip(e, casts=True)
        hops = 0
        while x is not None and hops < 6 and x.get('kind') in ('CXXConstructExpr', 'MaterializeTemporaryExpr', 'CXXBindTemporaryExpr',
                                                                'ExprWithCleanups', 'CXXFunctionalCastExpr') and len(tu.kids(x)) >= 1 and \
                len([k_ for k_ in tu.kids(x) if k_.get('kind') != 'CXXDefaultArgExpr']) == 1:
            x = tu.strip(tu.kids(x)[0], casts=True)
            hops += 1
        return x

    def cls(e, env, depth=0):
        """(class, root variable id): 'whole' = exactly the file name; 'extends' = a string that contains the whole file name;
        'partial' = built from a piece of it; None = not related / not understood"""
        x = unwrap(e)
        if x is None or depth > 8:
            return None, None
        k = x.get('kind')
        if k == 'DeclRefExpr':
            did = x.get('referencedDecl', {}).get('id')
            if did == name_id:
                return 'whole', did
            if did in env:
                return cls(env[did][0], env[did][1], depth + 1)
            vd = tu.node(did)
            if vd is not None and vd.get('kind') == 'VarDecl' and tu.kids(vd):
                c_, r_ = cls(tu.kids(vd)[0], env, depth + 1)
                return c_, (did if c_ in ('extends', 'partial') else r_)
            return None, None
        if k == 'CXXMemberCallExpr':
            sd, obj, args = tu.call_parts(x)
            nm = sd.get('q', '').split('::')[-1]
            if obj is None or 'basic_string' not in sd.get('q', ''):
                return None, None
            c_, r_ = cls(obj, env, depth + 1)
            if c_ is None:
                return None, None
            if nm in ('c_str', 'data'):
                return c_, r_
            if nm in NAME_PARTS:
                return 'partial', r_
            return None, None
        if (k == 'CXXOperatorCallExpr' or k == 'CallExpr') and tu.sd(x).get('q', '').split('::')[-1] == 'operator+':
            parts = [cls(a, env, depth + 1)[0] for a in (tu.kids(x)[1:])]
            if 'partial' in parts:
                return 'partial', None
            if 'whole' in parts or 'extends' in parts:
                return 'extends', None
            return None, None
        return None, None

    opens, renames = [], []
    todo, seen = [(f, {})], set()
    while todo:
        fn, env = todo.pop()
        if fn['id'] in seen:
            continue
        seen.add(fn['id'])
        for x in tu.walk(tu.body(fn)):
            if x.get('kind') not in ('CallExpr', 'CXXMemberCallExpr'):
                continue
            q = tu.sd(x).get('q', '')
            args = tu.call_parts(x)[2]
            if q in ('fopen', 'std::fopen', 'fopen64') and args:
                opens.append((x, cls(args[0], env), env))
            elif q in ('rename', 'std::rename') and len(args) == 2:
                renames.append((x, cls(args[0], env), cls(args[1], env)))
            else:
                cf_ = tu.callee_fn(x)
                if cf_ is not None and cf_['q'].startswith(UTIL) and tu.body(cf_) is not None and len(seen) < 20:
                    env2 = dict(env)
                    for p_, a2 in zip(cf_.get('params', []), args):
                        env2[p_['id']] = (a2, env)
                    todo.append((cf_, env2))
    if not opens:
        ctx.undecided(R, inst, 'no fopen found in writeImage or the helpers it calls', tu.fn_loc(f))
        return
    good = True
    for x, (c_, root), env in opens:
        a0 = tu.call_parts(x)[2][0]
        if c_ == 'whole':
            continue
        if c_ == 'partial':
            vd = tu.node(root) if root else None
            src = tu.show(tu.kids(vd)[0]) if vd is not None and tu.kids(vd) else tu.show(a0)
            ctx.violation(R, inst, 'the image is written to `%s` = `%s`, a name built from a piece of the file name: targets that differ '
                          'only in the dropped part (frame.ppm / frame.pfm, the usual way of saving the channels of one frame) share '
                          'this file; two writers running at the same time write over each other and only one rename finds the '
                          'file, so one target is garbage and the other is missing' % (tu.show(a0), src), tu.loc(x),
                          key=keyb + 'temporary-name-not-unique')
            good = False
            continue
        if c_ == 'extends':
            moved = [r for r in renames if r[1][0] == 'extends' and r[2][0] == 'whole' and (root is None or r[1][1] == root)]
            if moved:
                continue
            ctx.violation(R, inst, 'the image is written to `%s`, which is not the file the caller named, and is never renamed onto it'
                          % tu.show(a0), tu.loc(x), key=keyb + 'written-to-other-file')
            good = False
            continue
        ctx.undecided(R, inst, 'the path `%s` given to fopen is not derived from the file name parameter in a recognised way'
                      % tu.show(a0), tu.loc(x))
        good = False
    if good:
        ctx.ok(R, inst, '%d fopen(s): the file name parameter itself, or a temporary that contains it and is renamed onto it'
               % len(opens), tu.fn_loc(f))



def check_errno_use(ctx, tu, f):
    """R-C20-5 (state): errno is thread-wide state that successful library calls leave alone.  A test of errno alone -- not
    subordinate to a call of this function that reported failure -- reads whatever an earlier, unrelated call left there"""
    R = 'R-C20-5'
    inst = 'writeImage<%s> errno' % ', '.join(f.get('targs') or [])
    keyb = '%s|%s|writeImage|' % (R, tu.fn_file(f))

    def is_errno(x):
        return (x.get('kind') == 'CallExpr' and tu.sd(x).get('q') in ('__errno_location', '__error', '_errno')) or \
            (x.get('kind') == 'DeclRefExpr' and x.get('referencedDecl', {}).get('name') == 'errno')

    def reads_errno(e):
        return any(is_errno(x) for x in tu.walk(e))

    def other_inputs(e):
        """calls / variables other than errno that the expression looks at"""
        out = []
        for x in tu.walk(e):
            if x.get('kind') in ('CallExpr', 'CXXMemberCallExpr', 'CXXOperatorCallExpr') and not is_errno(x):
                out.append(x)
            if x.get('kind') == 'DeclRefExpr' and x.get('referencedDecl', {}).get('kind') in ('VarDecl', 'ParmVarDecl') and \
                    x.get('referencedDecl', {}).get('name') != 'errno':
                out.append(x)
        return out

    def disjuncts(e):
        x = tu.strip(e)
        if x is not None and x.get('kind') == 'BinaryOperator' and x.get('opcode') == '||':
            return disjuncts(tu.kids(x)[0]) + disjuncts(tu.kids(x)[1])
        return [x] if x is not None else []

    fns, seen = [f], set()
    found = False
    while fns:
        fn = fns.pop()
        if fn['id'] in seen:
            continue
        seen.add(fn['id'])
        body = tu.body(fn)
        clears = [x for x in tu.walk(body) if x.get('kind') == 'BinaryOperator' and x.get('opcode') == '=' and
                  reads_errno(tu.kids(x)[0])]
        for x in tu.walk(body):
            if x.get('kind') in ('CallExpr',):
                cf = tu.callee_fn(x)
                if cf is not None and cf['q'].startswith(UTIL) and tu.body(cf) is not None and len(seen) < 20:
                    fns.append(cf)
            if x.get('kind') != 'IfStmt':
                continue
            ks = [c for c in x.get('inner', ()) if isinstance(c, dict) and c.get('kind')]
            if len(ks) < 2 or not reads_errno(ks[0]):
                continue
            found = True
            alone = [d for d in disjuncts(ks[0]) if reads_errno(d) and not other_inputs(d)]
            if not alone:
                continue          # errno qualifies a failure that something else reported
            # a failure context: nested in the branch of a test that looks at the result of a call
            ctx_fail = False
            p_ = tu.par(x)
            hops = 0
            while p_ is not None and hops < 60 and p_.get('id') != body.get('id'):
                hops += 1
                if p_.get('kind') == 'IfStmt':
                    pk = [c for c in p_.get('inner', ()) if isinstance(c, dict) and c.get('kind')]
                    if pk and other_inputs(pk[0]):
                        ctx_fail = True
                p_ = tu.par(p_)
            if ctx_fail:
                continue
            acts = [y for br in ks[1:] for y in tu.walk(br) if y.get('kind') in ('CXXThrowExpr', 'ReturnStmt', 'BreakStmt', 'ContinueStmt',
                                                                                'GotoStmt') or
                    (y.get('kind') == 'CallExpr' and tu.sd(y).get('q') in ('remove', 'std::remove', 'unlink', 'abort', 'exit', 'std::exit'))]
            if not acts:
                continue
            if clears:
                ctx.undecided(R, inst, '`%s` decides on errno alone; errno is assigned earlier in the function, whether every call '
                              'in between leaves it untouched on success is not decided' % tu.show(ks[0]), tu.loc(x))
                return
            ctx.violation(R, inst, '`%s` takes `%s` as a failure of this write although errno is never cleared here and library calls '
                          'that succeed do not reset it: a value left behind by any earlier failed call on this thread (a missing '
                          'config file, an interrupted sleep) makes the writer %s for an image it has written correctly -- the result '
                          'depends on what ran before, not on the arguments'
                          % (tu.show(ks[0]), tu.show(alone[0]),
                             'throw and delete the file' if any(y.get('kind') == 'CallExpr' for y in acts) else 'give up'),
                          tu.loc(x), key=keyb + 'stale-errno')
            return
    if found:
        ctx.ok(R, inst, 'errno is only consulted to qualify a failure that a call reported', tu.fn_loc(f))



def check_images(ctx, tu):
    ctx.describe('R-C20-1', 'per writeImage instantiation: loops y<sizeY, x<sizeX, c<N; source index = row(y)*sizeX pixels + '
                 'PIXEL_COMP*x + channel(c) with 0 <= channel(c) < PIXEL_COMP; sizeof(PIXEL_T) == PIXEL_COMP*sizeof(COMP_T); '
                 'output index N*x+c; N*sizeX*sizeof(COMP_T) bytes per row')
    ctx.describe('R-C20-2', 'format table: magic <-> component type/count, `%i %i` fed (sizeX,sizeY), maxval 255 / negative '
                 'scale, rows flipped exactly for PPM/PGM, arguments handed through')
    ctx.describe('R-C20-12', 'writeImage opens the file named by its fileName parameter, or a temporary whose name contains the '
                 'whole fileName and which is renamed onto it')
    n = 0
    headers_of = check_wrappers(ctx, tu) or {}
    for f in sorted(tu.fns(q=UTIL + 'writeImage', dep=False), key=lambda x: str(x.get('targs'))):
        if tu.cfg(f) is None:
            continue
        n += 1
        check_write_image(ctx, tu, f)
        check_header_use(ctx, tu, f, headers_of.get(f['id']))
        check_image_destination(ctx, tu, f)
        check_errno_use(ctx, tu, f)
    ctx.floor('R-C20-1', n, 6, 'writeImage instantiations reachable from the six format wrappers')
    check_purity(ctx, tu)


# =====================================================================================================
#  R-C20-3: JSON skeleton automaton over the CFG of saveLog
# =====================================================================================================
BAD = ('BAD',)


def jstate(L=0, lc='', top='S', stack=(), instr=False, esc=False, flags=()):
    return (L, lc, top, stack, instr, esc, flags)


def lc_class(ch):
    return ch if ch in ',[' else 'o'


def json_char(st, ch):
    """advance the skeleton automaton by one literal character; returns (state, error-or-None)"""
    L, lc, top, stack, instr, esc, flags = st
    L2 = min(2, L + 1)
    lc2 = lc_class(ch)

    def mk(top=top, stack=stack, instr=instr, esc=False):
        return (L2, lc2, top, stack, instr, esc, flags), None

    def bad(msg):
        return BAD, msg

    if instr:
        if esc:
            return mk(esc=False)
        if ch == '\\':
            return mk(esc=True)
        if ch == '"':
            if stack:
                o = stack[-1]
                if o in ('K', 'k'):
                    return mk(stack=stack[:-1] + (':',), instr=False)
                if o == 'V':
                    return mk(stack=stack[:-1] + ('A',), instr=False)
                return bad('a string ends where the object grammar does not allow one')
            return mk(top='E', instr=False)
        return mk()
    if ch in ' \t\r\n':
        return mk()
    o = stack[-1] if stack else None
    if ch == '[':
        if not stack and top == 'S':
            return mk(top='O')
        return bad("'[' emitted while the array is already open (nested arrays are not part of the trace format)")
    if ch == ']':
        if stack:
            return bad("']' emitted inside an unterminated object")
        if top in ('O', 'E'):
            return mk(top='X')
        if top == 'C':
            return bad("']' directly after ',': trailing comma in the array")
        if top == 'S':
            return bad("']' emitted although no '[' is open: the output is not an array")
        return bad("']' emitted after the array was closed")
    if ch == '{':
        if not stack:
            if top in ('O', 'C'):
                return mk(stack=('K',))
            if top == 'E':
                return bad("'{' directly after an element: the separating ',' is missing")
            return bad("'{' emitted outside the array")
        if o == 'V':
            return mk(stack=stack + ('K',))
        return bad("'{' where a member name or separator is expected")
    if ch == '}':
        if not stack:
            return bad("'}' without an open object")
        if o in ('K', 'A', 'N'):
            rest = stack[:-1]
            if rest:
                if rest[-1] != 'V':
                    return bad("object closed in an unexpected place")
                return mk(stack=rest[:-1] + ('A',))
            return mk(top='E', stack=())
        if o == 'k':
            return bad("'}' directly after ',': trailing comma in an object")
        return bad("'}' where a member value is expected")
    if ch == ',':
        if not stack:
            if top == 'E':
                return mk(top='C')
            return bad("',' at array level without a preceding element")
        if o in ('A', 'N'):
            return mk(stack=stack[:-1] + ('k',))
        return bad("',' where a member name or value is expected")
    if ch == ':':
        if o == ':':
            return mk(stack=stack[:-1] + ('V',))
        return bad("':' not after a member name")
    if ch == '"':
        if (stack and o in ('K', 'k', 'V')) or (not stack and top in ('O', 'C')):
            return mk(instr=True)
        return bad("string starts where a separator is expected (missing ',' or ':')")
    # bare token character (number, true, false, null)
    if stack and o in ('V', 'N'):
        return mk(stack=stack[:-1] + ('N',))
    return bad("bare character %r where a separator, name or string is expected" % ch)


def json_text(st, text):
    for ch in text:
        if st == BAD:
            return st, None
        st, err = json_char(st, ch)
        if err:
            return BAD, err
    return st, None


def json_number(st):
    L, lc, top, stack, instr, esc, flags = st
    if instr:
        return (2 if L >= 1 else min(2, L + 1), 'o', top, stack, instr, False, flags), None
    if stack and stack[-1] in ('V', 'N'):
        return (2 if L >= 1 else 1, 'o', top, stack[:-1] + ('N',), instr, False, flags), None
    return BAD, 'a number is emitted where the JSON grammar expects a name or a separator'


def json_user(st):
    """text supplied at run time (may be empty); only allowed inside a string"""
    L, lc, top, stack, instr, esc, flags = st
    if not instr:
        return None
    return [st, (2, 'o', top, stack, instr, False, flags)]


def json_unput(st):
    """seekp(-1): the last character will be overwritten; (state, error)"""
    L, lc, top, stack, instr, esc, flags = st
    if L == 0:
        return BAD, "the last character is to be removed, but nothing of the output is still in memory (everything written so far " \
                    "was already handed to the file)"
    if lc == ',' and not instr:
        if not stack and top == 'C':
            return (2, '?', 'E', stack, instr, esc, flags), None
        if stack and stack[-1] == 'k':
            return (2, '?', top, stack[:-1] + ('A',), instr, esc, flags), None
    if lc == '[' and top == 'O' and not stack:
        return BAD, "the character removed by seekp(-1) is the opening '[' (no element was written): the file consists of `]` only"
    return BAD, "the character removed by seekp(-1) is not a trailing ',' (last character class: %r)" % (lc or 'nothing')


class JsonFlow:
    def __init__(self, tu, ctx, rule, keyb):
        self.tu = tu
        self.ctx = ctx
        self.rule = rule
        self.keyb = keyb
        self.found = {}          # detail -> (msg, node, fn, path)
        self.undec = {}
        self.memo = {}
        self.alias = set()       # ids of reference members (of writer helper objects) bound to the log stream
        self.strvals = {}        # std::string variables / parameters whose text was assembled in a string stream: decl id -> tokens
        self.staged_vars = set() # std::string variables holding a copy of the text still in the (string) stream
        self.ops = set()

    # ---- classification
    def stream_root(self, e):
        tu = self.tu
        e = tu.strip(e)
        hops = 0
        while e is not None and e.get('kind') in ('CXXOperatorCallExpr', 'CXXMemberCallExpr') and hops < 200:
            hops += 1
            sd, obj, args = tu.call_parts(e)
            nm = sd.get('q', '').split('::')[-1]
            if nm != 'operator<<':
                callee = tu.callee_fn(e)
                if callee is None or tu.cfg(callee) is None:
                    return None
                rets = [self.decl_of(tu.kids(r)[0]) for b, i, r in tu.cfg(callee).stmts() if r.get('kind') == 'ReturnStmt' and tu.kids(r)]
                if not rets or len(set(rets)) != 1 or rets[0] is None:
                    return None
                pidx = [i for i, p_ in enumerate(callee.get('params', [])) if p_['id'] == rets[0]]
                if pidx:
                    if pidx[0] >= len(args):
                        return None
                    e = tu.strip(args[pidx[0]])
                    continue
                return rets[0]          # a captured variable: the lambda body names the enclosing function's stream
            e = tu.strip(obj if obj is not None else args[0])
        return self.decl_of(e) if e is not None else None

    def string_tokens(self, callee):
        """token list of the std::string a function returns when it is `S.str()` of a local string stream that only
        receives insertions on a straight-line path; None otherwise"""
        tu = self.tu
        g = tu.cfg(callee)
        if g is None or g.back_edges() or any(len([x for x in b.succ if x is not None]) > 1 for b in g.blocks.values()):
            return None
        rets = [r for b, i, r in g.stmts() if r.get('kind') == 'ReturnStmt' and tu.kids(r)]
        if len(rets) != 1:
            return None
        sid = None
        for x in tu.walk(rets[0]):
            if x.get('kind') == 'CXXMemberCallExpr' and tu.sd(x).get('q', '').split('::')[-1] == 'str' and tu.call_parts(x)[1] is not None:
                sid = tu.ref_decl(tu.call_parts(x)[1])
        vd = tu.node(sid) if sid else None
        if vd is None or vd.get('kind') != 'VarDecl' or not re.search(r'ostringstream|stringstream', vd.get('type', {}).get('qualType', '')):
            return None
        toks = []
        for b, i, x in g.stmts():
            if x.get('kind') in ('CXXOperatorCallExpr', 'CXXMemberCallExpr') and tu.sd(x).get('q', '').split('::')[-1] == 'operator<<' \
                    and self.stream_root(x) == sid:
                c = self.classify(self.operand(x))
                if c is None or c[0] not in ('lit', 'num', 'user'):
                    return None
                toks.append(c)
        return toks

    def decl_of(self, e):
        """declaration a variable / member-of-this expression names"""
        tu = self.tu
        x = tu.strip(e, casts=True)
        if x is None:
            return None
        if x.get('kind') == 'DeclRefExpr':
            return x.get('referencedDecl', {}).get('id')
        if x.get('kind') == 'MemberExpr' and tu.kids(x) and tu.is_this(tu.kids(x)[0]):
            return x.get('referencedMemberDecl')
        return None

    def is_log(self, did, stream_id):
        return did is not None and (did == stream_id or did in self.alias)

    def operand(self, n):
        tu = self.tu
        sd, obj, args = tu.call_parts(n)
        if obj is not None:
            return args[0] if args else None
        return args[1] if len(args) == 2 else None

    def classify(self, e, st=None):
        """('lit', text) | ('num',) | ('user',) | ('call', fn) | None"""
        tu = self.tu
        x = tu.strip(e, casts=True)
        if x is None:
            return None
        k = x.get('kind')
        if k == 'DeclRefExpr' and st is not None:
            v = dict(st[6]).get('str:' + str(x.get('referencedDecl', {}).get('id')))
            if isinstance(v, str):
                return ('lit', v)
            if x.get('referencedDecl', {}).get('id') in self.strvals:
                return ('tokens', self.strvals[x['referencedDecl']['id']])
        if k == 'StringLiteral':
            v = c_string(x.get('value'))
            return ('lit', v) if v is not None else None
        if k == 'CharacterLiteral':
            return ('lit', chr(x.get('value', 63)))
        if k == 'ConditionalOperator':
            a, b = self.classify(tu.kids(x)[1]), self.classify(tu.kids(x)[2])
            if a is None or b is None:
                return None
            if a[0] == 'lit' and b[0] == 'lit':
                return ('alt', a[1], b[1])
            if {a[0], b[0]} <= {'lit', 'user'}:
                return ('user',)
            return None
        ct = tu.sd(tu.strip(e)).get('ct', '') or tu.sd(x).get('ct', '')
        t = re.sub(r'^const\s+', '', ct.replace('&', '').strip())
        t = re.sub(r'\s*\bconst$', '', t).strip()
        if t in ('int', 'unsigned int', 'long', 'unsigned long', 'long long', 'unsigned long long', 'short',
                 'unsigned short', 'float', 'double'):
            return ('num',)
        if t in ('const char *', 'char *', 'std::basic_string<char>', 'std::thread::id') or t.startswith('char['):
            return ('user',)
        return None

    # ---- exploration of one function
    def run_fn(self, f, stream_id, st0, depth=0):
        """set of states at the exits of f when entered with st0"""
        key = (f['id'], stream_id, st0)
        if key in self.memo:
            return self.memo[key]
        self.memo[key] = set()
        tu = self.tu
        g = tu.cfg(f)
        pred = {(g.entry, st0): None}
        work = [(g.entry, st0)]
        exits = set()
        while work:
            bid, st = work.pop()
            blk = g.blocks[bid]
            states = [st]
            for e in blk.el:
                if e[0] != 'S':
                    continue
                n = tu.node(e[1])
                if n is None:
                    continue
                nxt = []
                for s in states:
                    for s2 in self.transfer(f, n, s, stream_id, (bid, st), pred, depth):
                        if s2 not in nxt:
                            nxt.append(s2)
                states = nxt
            if bid == g.exit:
                exits.update(states)
                continue
            succs = blk.succ
            for si, sc in enumerate(succs):
                if sc is None:
                    continue
                for s in states:
                    outs = [s]
                    if blk.cond and len(succs) == 2 and s != BAD:
                        outs = self.refine(f, blk, si, s, stream_id)
                    for s2 in outs:
                        if sc == g.exit:
                            exits.add(s2)
                        k2 = (sc, s2)
                        if k2 not in pred:
                            pred[k2] = (bid, st, si)
                            work.append(k2)
                            if len(pred) > 200000:
                                raise Undecided('state explosion')
        self.memo[key] = exits
        return exits

    def path(self, f, at, pred):
        tu = self.tu
        g = tu.cfg(f)
        out = []
        key = at
        seen = set()
        while key is not None and key not in seen:
            seen.add(key)
            p = pred.get(key)
            if p is None:
                break
            bid, st, si = p
            blk = g.blocks[bid]
            if blk.cond and len(blk.succ) == 2:
                out.append('%s: `%s` is %s' % (tu.loc(blk.cond), tu.show(tu.node(blk.cond)), 'true' if si == 0 else 'false'))
            key = (bid, st)
        out.reverse()
        return out

    def report(self, f, detail, msg, n, at, pred):
        if detail not in self.found:
            self.found[detail] = (msg, n, f, self.path(f, at, pred))

    def set_flag(self, st, var, val):
        L, lc, top, stack, instr, esc, flags = st
        d = dict(flags)
        if val is None:
            d.pop(var, None)
        else:
            d[var] = val
        return (L, lc, top, stack, instr, esc, tuple(sorted(d.items())))

    def transfer(self, f, n, st, stream_id, at, pred, depth):
        tu = self.tu
        if st == BAD:
            return [st]
        k = n.get('kind')
        if k in ('CXXMemberCallExpr', 'CXXOperatorCallExpr') and tu.call_parts(n)[1] is not None and \
                tu.ref_decl(tu.call_parts(n)[1]) in self.staged_vars:
            # operations on a std::string copy of the text that is still in memory act on the end of the output
            sd_, obj_, args_ = tu.call_parts(n)
            nm_ = sd_.get('q', '').split('::')[-1]
            if nm_ == 'pop_back':
                s2, err = json_unput(st)
                if err:
                    self.report(f, 'overwrites-non-comma', err.replace('seekp(-1)', 'pop_back()'), n, at, pred)
                return [s2]
            if nm_ in ('operator+=', 'append', 'push_back') and len(args_) == 1:
                c_ = self.classify(args_[0], st)
                if c_ is not None and c_[0] == 'lit':
                    s2, err = json_text(st, c_[1])
                    if err:
                        self.report(f, 'skeleton', 'appending %r here: %s' % (c_[1], err), n, at, pred)
                    return [s2]
                self.undec.setdefault('text appended with `%s`' % tu.show(n), n)
                return [BAD]
            if nm_ in ('erase', 'resize', 'clear', 'insert', 'replace', 'assign', 'operator='):
                self.undec.setdefault('modification `%s` of the pending text' % tu.show(n), n)
                return [BAD]
            return [st]
        if k == 'DeclStmt':
            for vd in n.get('inner', ()):
                if isinstance(vd, dict) and vd.get('kind') == 'VarDecl' and tu.kids(vd) and \
                        re.search(r'basic_string<char|std::string', vd.get('type', {}).get('qualType', '')) and \
                        any(y.get('kind') == 'CXXMemberCallExpr' and tu.sd(y).get('q', '').split('::')[-1] == 'str' and
                            not tu.call_parts(y)[2] and tu.call_parts(y)[1] is not None and
                            self.is_log(self.decl_of(tu.call_parts(y)[1]), stream_id) for y in tu.walk(tu.kids(vd)[0])):
                    self.staged_vars.add(vd['id'])
                if isinstance(vd, dict) and vd.get('kind') == 'VarDecl' and tu.kids(vd) and \
                        re.search(r'basic_string<char|std::string', vd.get('type', {}).get('qualType', '')):
                    for y in tu.walk(tu.kids(vd)[0]):
                        if y.get('kind') == 'CallExpr' and tu.callee_fn(y) is not None and tu.cfg(tu.callee_fn(y)) is not None and \
                                not tu.sd(y).get('q', '').startswith('std::'):
                            tk = self.string_tokens(tu.callee_fn(y))
                            if tk is not None:
                                self.strvals[vd['id']] = tk
                            break
                if isinstance(vd, dict) and vd.get('kind') == 'VarDecl' and tu.kids(vd) and \
                        re.match(r'^const char \*', vd.get('type', {}).get('qualType', '')):
                    lit = tu.strip(tu.kids(vd)[0], casts=True)
                    txt = c_string(lit.get('value')) if lit is not None and lit.get('kind') == 'StringLiteral' else None
                    st = self.set_flag(st, 'str:' + vd['id'], txt)
                if isinstance(vd, dict) and vd.get('kind') == 'VarDecl' and vd.get('name', '').startswith('__begin'):
                    st = self.set_flag(st, 'first:' + vd['id'], 1)
                if isinstance(vd, dict) and vd.get('kind') == 'VarDecl' and vd.get('type', {}).get('qualType') == 'bool':
                    init = tu.kids(vd)
                    cv = tu.sd(tu.strip(init[0])).get('cv') if init else None
                    if cv is None and init and tu.strip(init[0]).get('kind') == 'CXXBoolLiteralExpr':
                        cv = '1' if tu.strip(init[0]).get('value') else '0'
                    st = self.set_flag(st, vd['id'], None if cv is None else int(cv))
            return [st]
        if k in ('BinaryOperator', 'CompoundAssignOperator', 'UnaryOperator') and \
                n.get('opcode') in ('=', '+=', '-=', '++', '--', '*=', '/=', '|=', '&='):
            did0 = tu.ref_decl(tu.kids(n)[0])
            if did0 is not None and ('nz:' + did0) in dict(st[6]):
                st = self.set_flag(st, 'nz:' + did0, None)
        if k == 'BinaryOperator' and n.get('opcode') == '=' and ('str:' + str(tu.ref_decl(tu.kids(n)[0]))) in dict(st[6]) or \
                (k == 'BinaryOperator' and n.get('opcode') == '=' and tu.sd(tu.strip(tu.kids(n)[0])).get('ct', '').startswith('const char *')
                 and tu.ref_decl(tu.kids(n)[0]) is not None):
            l, r = tu.kids(n)
            lit = tu.strip(r, casts=True)
            txt = c_string(lit.get('value')) if lit is not None and lit.get('kind') == 'StringLiteral' else None
            return [self.set_flag(st, 'str:' + tu.ref_decl(l), txt)]
        if k == 'CXXOperatorCallExpr' and tu.sd(n).get('q', '').split('::')[-1] == 'operator()':
            callee = tu.callee_fn(n)
            if callee is not None and tu.cfg(callee) is not None and depth < 4:
                uses = any(x.get('kind') == 'DeclRefExpr' and x.get('referencedDecl', {}).get('id') == stream_id
                           for x in tu.walk(tu.body(callee)))
                if uses:
                    outs = self.run_fn(callee, stream_id, st, depth + 1)
                    if BAD in outs:
                        self.report(f, 'helper', 'the lambda called here breaks the JSON skeleton (see its own report)', n, at, pred)
                    return list(outs) or [st]
            return [st]
        if k == 'BinaryOperator' and n.get('opcode') == '=':
            l, r = tu.kids(n)
            did = self.decl_of(l)
            if did is not None and dict(st[6]).get(did) is not None or (did is not None and tu.sd(tu.strip(l)).get('ct') == 'bool'):
                rs = tu.strip(r)
                cv = tu.sd(rs).get('cv')
                if cv is None and rs is not None and rs.get('kind') == 'CXXBoolLiteralExpr':
                    cv = '1' if rs.get('value') else '0'
                return [self.set_flag(st, did, None if cv is None else int(cv))]
            return [st]
        if k == 'UnaryOperator' and n.get('opcode') == '&':
            did = tu.ref_decl(tu.kids(n)[0])
            if did is not None and did in dict(st[6]):
                return [self.set_flag(st, did, None)]
            return [st]
        if k == 'CXXOperatorCallExpr' and tu.sd(n).get('q', '').split('::')[-1] in ('operator++', 'operator--', 'operator+='):
            did = tu.ref_decl(tu.kids(n)[1]) if len(tu.kids(n)) > 1 else None
            if did is not None and ('first:' + did) in dict(st[6]):
                return [self.set_flag(st, 'first:' + did, 0)]
            return [st]
        if k == 'CXXMemberCallExpr' and not tu.sd(n).get('fty', '').rstrip().endswith('const') and \
                not tu.sd(n).get('fty', '').rstrip().endswith('const noexcept'):
            sd, obj, args = tu.call_parts(n)
            if obj is not None and ('ne:' + tu.show(obj)) in dict(st[6]):
                st = self.set_flag(st, 'ne:' + tu.show(obj), None)
        if k in ('CXXOperatorCallExpr', 'CXXMemberCallExpr') and tu.sd(n).get('q', '').split('::')[-1] == 'operator<<':
            if not self.is_log(self.stream_root(n), stream_id):
                return [st]
            self.ops.add(n['id'])
            opnd = self.operand(n)
            q = tu.sd(n).get('q', '')
            callee = tu.callee_fn(n)
            if callee is not None and not q.startswith('std::') and tu.cfg(callee) is not None and depth < 4 and callee.get('params'):
                # user-defined inserter with a body: run the automaton through it
                outs = self.run_fn(callee, callee['params'][0]['id'], st, depth + 1)
                if BAD in outs:
                    self.report(f, 'inserter', 'the inserter %s called here breaks the JSON skeleton' % callee['q'], n, at, pred)
                return list(outs) or [st]
            c = self.classify(opnd, st) if opnd is not None else None
            if c is None:
                self.undec.setdefault(tu.show(opnd) if opnd is not None else '?', n)
                return [BAD]
            if c[0] == 'tokens':
                cur = [st]
                for tk in c[1]:
                    nxt = []
                    for s_ in cur:
                        if s_ == BAD:
                            nxt.append(s_)
                        elif tk[0] == 'lit':
                            s2, err = json_text(s_, tk[1])
                            if err:
                                self.report(f, 'skeleton', 'emitting %r (part of the pre-formatted text `%s`) here: %s'
                                            % (tk[1], tu.show(opnd), err), n, at, pred)
                            nxt.append(s2)
                        elif tk[0] == 'num':
                            s2, err = json_number(s_)
                            if err:
                                self.report(f, 'skeleton', err, n, at, pred)
                            nxt.append(s2)
                        else:
                            r_ = json_user(s_)
                            if r_ is None:
                                self.report(f, 'skeleton', 'run-time text inside `%s` is emitted outside a JSON string' % tu.show(opnd), n, at, pred)
                                nxt.append(BAD)
                            else:
                                nxt.extend(r_)
                    cur = list(dict.fromkeys(nxt))
                return cur
            if c[0] in ('lit', 'alt'):
                res = []
                for text in c[1:]:
                    s2, err = json_text(st, text)
                    if err:
                        self.report(f, 'skeleton', 'emitting %r here: %s' % (text, err), n, at, pred)
                    res.append(s2)
                return res
            if c[0] == 'num':
                s2, err = json_number(st)
                if err:
                    self.report(f, 'skeleton', err, n, at, pred)
                return [s2]
            if c[0] == 'user':
                r = json_user(st)
                if r is None:
                    self.report(f, 'skeleton', 'run-time text `%s` is emitted outside a JSON string' % tu.show(opnd), n, at, pred)
                    return [BAD]
                return r
        if k in ('CallExpr', 'CXXMemberCallExpr', 'CXXConstructExpr') and tu.sd(n).get('q', '').split('::')[-1] != 'operator<<':
            sd0, obj0, args0 = tu.call_parts(n)
            pos = [i for i, a in enumerate(args0) if self.is_log(self.decl_of(a), stream_id)]
            callee0 = tu.callee_fn(n)
            if pos and k == 'CXXConstructExpr' and callee0 is not None and tu.cfg(callee0) is not None and \
                    not tu.sd(n).get('q', '').startswith('std::') and pos[0] < len(callee0.get('params', [])):
                # an object that keeps a reference / pointer to the log stream: its member names the stream from now on
                prm = callee0['params'][pos[0]]['id']
                for b_ in tu.cfg(callee0).blocks.values():
                    for e_ in b_.el:
                        if e_[0] != 'I' or e_[2] is None:
                            continue
                        init_ = tu.node(e_[1])
                        if init_ is None:
                            continue
                        if init_.get('kind') == 'CXXDefaultInitExpr':
                            fd_ = tu.node(e_[2])
                            lit = [y for y in tu.walk(fd_) if y.get('kind') == 'CXXBoolLiteralExpr'] if fd_ else []
                            if lit and fd_.get('type', {}).get('qualType') == 'bool':
                                st = self.set_flag(st, e_[2], 1 if lit[0].get('value') else 0)
                        elif any(y.get('kind') == 'DeclRefExpr' and y.get('referencedDecl', {}).get('id') == prm for y in tu.walk(init_)):
                            self.alias.add(e_[2])
                        elif tu.node(e_[2]) is not None and tu.node(e_[2]).get('type', {}).get('qualType') == 'bool':
                            lit = [y for y in tu.walk(init_) if y.get('kind') == 'CXXBoolLiteralExpr']
                            st = self.set_flag(st, e_[2], (1 if lit[0].get('value') else 0) if lit else None)
                outs = self.run_fn(callee0, prm, st, depth + 1)
                if BAD in outs:
                    self.report(f, 'helper', 'the constructor %s called here breaks the JSON skeleton' % callee0['q'], n, at, pred)
                return list(outs) or [st]
            if not pos and k == 'CXXMemberCallExpr' and callee0 is not None and tu.cfg(callee0) is not None and self.alias and \
                    depth < 4 and any(y.get('referencedMemberDecl') in self.alias for y in tu.walk(tu.body(callee0))
                                      if y.get('kind') == 'MemberExpr'):
                # a member function of such an object writes to (or hands out) the log stream
                outs = self.run_fn(callee0, stream_id, st, depth + 1)
                if BAD in outs:
                    self.report(f, 'helper', 'the member function %s called here breaks the JSON skeleton' % callee0['q'], n, at, pred)
                return list(outs) or [st]
            if pos and k != 'CXXConstructExpr' and tu.sd(n).get('q', '').startswith('std::') and \
                    tu.sd(n).get('q', '').split('::')[-1] in ('copyfmt', 'flags', 'precision', 'width', 'fill', 'getloc', 'rdstate',
                                                               'good', 'fail', 'bad', 'eof', 'imbue', 'setf', 'unsetf'):
                return [st]          # formatting state is read from / set on the stream: nothing is written
            if pos and k != 'CXXConstructExpr':
                callee = tu.callee_fn(n)
                if callee is not None and tu.cfg(callee) is not None:
                    for p_, a_ in zip(callee.get('params', []), args0):
                        a0_ = tu.strip(a_, casts=True)
                        if a0_ is not None and a0_.get('kind') == 'StringLiteral' and c_string(a0_.get('value')) is not None:
                            st = self.set_flag(st, 'str:' + p_['id'], c_string(a0_.get('value')))
                        elif a0_ is not None and a0_.get('kind') == 'DeclRefExpr' and a0_.get('referencedDecl', {}).get('id') in self.strvals:
                            self.strvals[p_['id']] = self.strvals[a0_['referencedDecl']['id']]
                if callee is None or tu.cfg(callee) is None or depth >= 4 or pos[0] >= len(callee.get('params', [])):
                    self.undec.setdefault('the stream is handed to `%s`, whose body is not available' % tu.show(n), n)
                    return [BAD]
                outs = self.run_fn(callee, callee['params'][pos[0]]['id'], st, depth + 1)
                if BAD in outs:
                    self.report(f, 'helper', 'the helper %s called here breaks the JSON skeleton (see its own report)' % callee['q'],
                                n, at, pred)
                return list(outs) or [st]
        if k == 'CXXMemberCallExpr':
            sd, obj, args = tu.call_parts(n)
            nm = sd.get('q', '').split('::')[-1]
            if obj is not None and tu.ref_decl(obj) == stream_id and nm == 'str' and len(args) == 1:
                # the staging stream is emptied: what it held has been handed on and can no longer be edited
                L_, lc_, top_, stack_, instr_, esc_, flags_ = st
                return [(0, lc_, top_, stack_, instr_, esc_, flags_)]
            if obj is not None and tu.ref_decl(obj) == stream_id:
                if nm == 'seekp':
                    off = tu.sd(tu.strip(args[0])).get('cv') if args else None
                    if off is None and args:
                        v = Evaluator(tu).ev(args[0])
                        off = str(v.const_value()) if v is not None and v.const_value() is not None else None
                    way = tu.strip(args[1]) if len(args) == 2 else None
                    wname = way.get('referencedDecl', {}).get('name', '') if way is not None and way.get('kind') == 'DeclRefExpr' else ''
                    if off == '-1' and wname in ('cur', '_S_cur'):
                        s2, err = json_unput(st)
                        if err:
                            self.report(f, 'overwrites-non-comma', err, n, at, pred)
                        return [s2]
                    self.undec.setdefault('seekp form `%s`' % tu.show(n), n)
                    return [BAD]
                if nm in ('put', 'write', 'operator<<', 'seekp'):
                    self.undec.setdefault('stream call `%s`' % tu.show(n), n)
                    return [BAD]
        return [st]

    def range_of_begin(self, begin_id):
        """text of the container a range-for iterates, given the id of its __begin variable"""
        tu = self.tu
        vd = tu.node(begin_id)
        if vd is None or not tu.kids(vd):
            return None
        for x in tu.walk(tu.kids(vd)[0]):
            if x.get('kind') == 'DeclRefExpr' and x.get('referencedDecl', {}).get('name', '').startswith('__range'):
                rv = tu.node(x['referencedDecl']['id'])
                if rv is not None and tu.kids(rv):
                    return tu.show(tu.kids(rv)[0])
        return None

    def refine(self, f, blk, si, st, stream_id):
        tu = self.tu
        c = tu.strip(tu.node(blk.cond))
        while c is not None and c.get('kind') == 'BinaryOperator' and c.get('opcode') in ('&&', '||'):
            c = tu.strip(tu.kids(c)[1])
        if c is None:
            return [st]
        flags = dict(st[6])
        T = ('sym', 'tellp')

        def var(n, did):
            if did in flags:
                return Poly.const(flags[did])
            if did is not None:
                return Poly.atom(('decl', did))
            return None

        def call(n):
            sd, obj, args = tu.call_parts(n)
            nm = sd.get('q', '').split('::')[-1]
            if obj is not None and nm == 'tellp' and tu.ref_decl(obj) == stream_id:
                return Poly.atom(T)
            if obj is not None and nm.startswith('operator ') and 'fpos' in sd.get('q', ''):
                return ev.ev(obj)
            return None

        # ---- tests on a std::string copy of the text still in memory: empty(), back() == ch
        negp, cp = False, c
        while cp is not None and cp.get('kind') == 'UnaryOperator' and cp.get('opcode') == '!':
            negp = not negp
            cp = tu.strip(tu.kids(cp)[0])
        if cp is not None and cp.get('kind') == 'CXXMemberCallExpr' and tu.call_parts(cp)[1] is not None and \
                tu.ref_decl(tu.call_parts(cp)[1]) in self.staged_vars and tu.sd(cp).get('q', '').split('::')[-1] == 'empty':
            is_empty = st[0] == 0
            return [st] if (is_empty != negp) == (si == 0) else []
        if cp is not None and cp.get('kind') in ('BinaryOperator', 'CXXOperatorCallExpr') and \
                (cp.get('opcode') in ('==', '!=') or tu.sd(cp).get('q', '').split('::')[-1] in ('operator==', 'operator!=')):
            ks_ = tu.kids(cp) if cp.get('kind') == 'BinaryOperator' else tu.kids(cp)[1:]
            eq_ = (cp.get('opcode') == '==') if cp.get('kind') == 'BinaryOperator' else tu.sd(cp).get('q', '').endswith('==')
            if len(ks_) == 2:
                for a_, b_ in ((ks_[0], ks_[1]), (ks_[1], ks_[0])):
                    a0_, b0_ = tu.strip(a_, casts=True), tu.strip(b_, casts=True)
                    if a0_ is not None and a0_.get('kind') == 'CXXMemberCallExpr' and tu.call_parts(a0_)[1] is not None and \
                            tu.ref_decl(tu.call_parts(a0_)[1]) in self.staged_vars and \
                            tu.sd(a0_).get('q', '').split('::')[-1] == 'back' and b0_ is not None and b0_.get('kind') == 'CharacterLiteral':
                        ch_ = chr(b0_.get('value', 0))
                        lc_ = st[1]
                        if lc_ in ('?', ''):
                            return [st]
                        same = (lc_ == ch_) if ch_ in ',[' else (lc_ == 'o' and None)
                        if same is None:
                            return [st]
                        return [st] if ((same == eq_) != negp) == (si == 0) else []
        # ---- emptiness of a container and the first test of a range-for over the same container
        neg = False
        c2 = c
        while c2 is not None and c2.get('kind') == 'UnaryOperator' and c2.get('opcode') == '!':
            neg = not neg
            c2 = tu.strip(tu.kids(c2)[0])
        if c2 is not None and c2.get('kind') == 'CXXMemberCallExpr' and tu.sd(c2).get('q', '').split('::')[-1] == 'empty':
            obj = tu.call_parts(c2)[1]
            if obj is not None:
                key = 'ne:' + tu.show(obj)
                known = flags.get(key)
                is_empty_edge = (si == 0) != neg          # on this edge the container is empty
                if known is not None:
                    return [st] if (known == 0) == is_empty_edge else []
                return [self.set_flag(st, key, 0 if is_empty_edge else 1)]
        if c2 is not None and c2.get('kind') == 'CXXOperatorCallExpr' and \
                tu.sd(c2).get('q', '').split('::')[-1] in ('operator!=', 'operator=='):
            ks = tu.kids(c2)[1:]
            bid_ = tu.ref_decl(ks[0]) if ks else None
            if bid_ is not None and flags.get('first:' + bid_) == 1:
                rng = self.range_of_begin(bid_)
                if rng is not None:
                    key = 'ne:' + rng
                    known = flags.get(key)
                    ne_edge = (si == 0) != neg if tu.sd(c2).get('q', '').endswith('!=') else (si == 1) != neg
                    if known is not None:
                        return [st] if (known == 1) == ne_edge else []
                    return [self.set_flag(st, key, 1 if ne_edge else 0)]
        def member(n_):
            did_ = n_.get('referencedMemberDecl') if tu.kids(n_) and tu.is_this(tu.kids(n_)[0]) else None
            if did_ in flags and isinstance(flags[did_], int):
                return Poly.const(flags[did_])
            return None

        ev = Evaluator(tu, var, member, call)
        rel = ev.rel(c)
        if rel is None:
            return [st]
        if len(rel) == 1 and rel[0][1] in ('==', '!=') and len(rel[0][0].t) == 1:
            (mon, coef), = rel[0][0].t.items()
            if len(mon) == 1 and isinstance(mon[0], tuple) and mon[0][0] == 'decl' and abs(coef) == 1:
                # truthiness of a variable: remembered along the path (cleared when it is assigned)
                key = 'nz:' + mon[0][1]
                nz_edge = (si == 0) == (rel[0][1] == '!=')
                known = flags.get(key)
                if known is not None:
                    return [st] if (known == 1) == nz_edge else []
                return [self.set_flag(st, key, 1 if nz_edge else 0)]
        L = st[0]
        verdicts = []
        for p, op in rel:
            cval = p.const_value()
            if cval is None:
                co = p.coeff(T)
                if co is None or co[0].const_value() not in (1, -1) or co[1].const_value() is None:
                    verdicts.append(None)
                    continue
                a, r = co[0].const_value(), co[1].const_value()
                if L < 2:
                    cval = a * L + r
                else:
                    # t >= 2
                    if op == '<=':
                        if a == 1:          # t + r <= 0  <=>  t <= -r
                            verdicts.append(False if -r < 2 else None)
                        else:               # -t + r <= 0 <=> t >= r
                            verdicts.append(True if r <= 2 else None)
                    else:
                        val = -r * a        # t == val
                        hit = None if val >= 2 else False
                        verdicts.append(hit if op == '==' else (None if hit is None else True))
                    continue
            verdicts.append(cval <= 0 if op == '<=' else cval == 0 if op == '==' else cval != 0)
        if any(v is False for v in verdicts):
            truth = False
        elif all(v is True for v in verdicts):
            truth = True
        else:
            truth = None
        if truth is None:
            return [st]
        return [st] if (truth and si == 0) or (not truth and si == 1) else []


def check_savelog(ctx, tu):
    R = 'R-C20-3'
    ctx.describe(R, 'JSON skeleton automaton over every CFG path of saveLog: the emitted text is `[` object (`,` object)* `]`; the '
                 'character removed by seekp(-1) is a trailing `,`')
    fs = [f for f in tu.fns(q=TR + 'TraceRecorder::saveLog', dep=False) if tu.cfg(f) is not None]
    if not fs:
        ctx.broken('%s: anchor TraceRecorder::saveLog not found' % R)
        return
    f = fs[0]
    inst = 'TraceRecorder::saveLog'
    keyb = '%s|%s|%s|' % (R, tu.fn_file(f), inst)
    streams = []
    for n in tu.walk(tu.body(f)):
        if n.get('kind') == 'VarDecl' and re.search(r'\b(std::)?(basic_)?ofstream\b|basic_ostream|ostringstream|stringstream',
                                                     n.get('type', {}).get('qualType', '')):
            streams.append(n)
    if len(streams) > 1:
        # several streams (a file plus an in-memory staging stream, scratch string streams): the log is assembled in the
        # one that receives the insertions
        probe = JsonFlow(tu, ctx, R, keyb)
        counts = {x['id']: 0 for x in streams}
        for y in tu.walk(tu.body(f)):
            if y.get('kind') in ('CXXOperatorCallExpr', 'CXXMemberCallExpr') and tu.sd(y).get('q', '').split('::')[-1] == 'operator<<':
                r_ = probe.stream_root(y)
                if r_ in counts:
                    counts[r_] += 1
        best = max(counts.values())
        top_ = [x for x in streams if counts[x['id']] == best]
        files = [x for x in top_ if re.search(r'ofstream', x.get('type', {}).get('qualType', ''))]
        streams = files[:1] if files else top_[:1] if len(top_) == 1 else streams
    if len(streams) != 1:
        ctx.undecided(R, inst, 'expected one local output stream, found %d' % len(streams), tu.fn_loc(f))
        return
    jf = JsonFlow(tu, ctx, R, keyb)
    try:
        exits = jf.run_fn(f, streams[0]['id'], jstate())
    except Undecided as u:
        ctx.undecided(R, inst, str(u), tu.fn_loc(f))
        return
    ctx.floor(R, len(jf.ops), 20, 'stream insertions into the log stream that the automaton must have followed (brackets, the metadata, '
              'event and counter records): 79 on the pinned tree; how many insertions a record is split into is incidental')
    for what, n in jf.undec.items():
        ctx.undecided(R, inst, 'emission `%s` is not classified' % what, tu.loc(n))
    for detail, (msg, n, fn, path) in jf.found.items():
        ctx.violation(R, inst, msg, tu.loc(n), key=keyb + detail, path=path)
    if jf.found or jf.undec:
        return
    open_states = sorted({(s[2], s[3], s[4]) for s in exits if s != BAD and not (s[2] == 'X' and not s[3] and not s[4])})
    if open_states:
        ctx.violation(R, inst, 'a path reaches the end of saveLog with the array not closed (array state %s, open objects %s)'
                      % (open_states[0][0], list(open_states[0][1])), tu.fn_loc(f), key=keyb + 'unterminated')
        return
    ctx.ok(R, inst, '%d insertions; every path ends with a closed array; %d abstract exit state(s)' % (len(jf.ops), len(exits)), tu.fn_loc(f))


# =====================================================================================================
#  R-C20-4: recording and iteration structure
# =====================================================================================================
EVENT_FNS = {'beginEvent': 'BEGIN', 'endEvent': 'END', 'setMarker': 'MARKER', 'setCounter': 'COUNTER'}


def ctor_summary(tu, f, memo, depth=0):
    """field name -> parameter index (or ('const', text)) after construction, following delegation"""
    if f['id'] in memo:
        return memo[f['id']]
    memo[f['id']] = {}
    out = {}
    g = tu.cfg(f)
    pidx = {p['id']: i for i, p in enumerate(f['params'])}
    for b in sorted(g.blocks.values(), key=lambda b: -b.id):
        for e in b.el:
            if e[0] == 'I' and e[3] == '<base>':
                init = tu.node(e[1])
                callee = tu.callee_fn(init) if init is not None else None
                if callee is not None and callee.get('rec') == f.get('rec') and depth < 5 and tu.cfg(callee) is not None:
                    sub = ctor_summary(tu, callee, memo, depth + 1)
                    args = tu.call_parts(init)[2]
                    for fld, src in sub.items():
                        if isinstance(src, int) and src < len(args):
                            d = tu.ref_decl(args[src])
                            out[fld] = pidx[d] if d in pidx else ('expr', tu.show(args[src]))
                        else:
                            out[fld] = src
            elif e[0] == 'I' and e[2] is not None:
                # member initialiser: field(param)
                init = tu.node(e[1])
                if init is not None and init.get('kind') != 'CXXDefaultInitExpr':
                    d = tu.ref_decl(init)
                    out[e[3]] = pidx[d] if d in pidx else ('expr', tu.show(init))
            elif e[0] == 'S':
                n = tu.node(e[1])
                if n is not None and n.get('kind') == 'BinaryOperator' and n.get('opcode') == '=':
                    l, r = tu.kids(n)
                    fld = tu.member_of_this(l)
                    if fld is not None:
                        d = tu.ref_decl(r)
                        out[fld] = pidx[d] if d in pidx else ('expr', tu.show(r))
    memo[f['id']] = out
    return out


TEL = TR + 'ThreadEventList'
EVVEC_RX = re.compile(r'^(const )?std::vector<rkcommon::tracing::TraceEvent\b')


def on_events(tu, x, names):
    """x is a call `events.<name>(...)` on the chunk-list member"""
    if x is None or x.get('kind') != 'CXXMemberCallExpr':
        return False
    sd, obj, args = tu.call_parts(x)
    return sd.get('q', '').split('::')[-1] in names and obj is not None and tu.member_of_this(obj) == 'events'


class RecordWalk:
    """Expands one public record function with the ThreadEventList members it calls (parameters mapped to arguments)
    and collects the places where a TraceEvent is appended to a chunk."""

    def __init__(self, tu):
        self.tu = tu
        self.sites = []       # (call node, fn, env, chain of (call node, fn))
        self.notes = []

    def resolve(self, e, env, depth=0):
        """follow parameters of inlined helpers and local aliases to the defining expression"""
        tu = self.tu
        while e is not None and depth < 12:
            depth += 1
            x = tu.strip(e, casts=True)
            if x is None:
                return None, env
            k = x.get('kind')
            if k in ('CXXConstructExpr', 'CXXTemporaryObjectExpr') and tu.sd(x).get('rec') == TR + 'TraceEvent' and \
                    len(tu.kids(x)) == 1 and re.sub(r'\bconst\s+|&', '', tu.sd(tu.strip(tu.kids(x)[0])).get('ct', '')).strip() == TR + 'TraceEvent':
                e = tu.kids(x)[0]       # copy / move construction of an event from an event
                continue
            if k == 'CallExpr' and tu.sd(x).get('q') in ('std::move', 'std::forward') and tu.call_parts(x)[2]:
                e = tu.call_parts(x)[2][0]
                continue
            if k == 'DeclRefExpr':
                did = x.get('referencedDecl', {}).get('id')
                if did in env:
                    e, env = env[did]
                    continue
                vd = tu.node(did)
                if vd is not None and vd.get('kind') == 'VarDecl' and tu.kids(vd):
                    e = tu.kids(vd)[0]
                    continue
            return x, env
        return None, env

    def walk(self, n, fn, env, chain, depth=0):
        tu = self.tu
        k = n.get('kind')
        if k == 'LambdaExpr':
            self.notes.append('lambda')
            return
        if k == 'CXXMemberCallExpr':
            sd, obj, args = tu.call_parts(n)
            nm = sd.get('q', '').split('::')[-1]
            oct_ = tu.sd(tu.strip(obj)).get('ct', '') if obj is not None else ''
            if nm in ('push_back', 'emplace_back', 'push_front', 'emplace_front', 'insert', 'emplace') and EVVEC_RX.match(oct_):
                self.sites.append((n, fn, env, list(chain)))
            callee = tu.callee_fn(n)
            if callee is not None and callee.get('rec') == TEL and tu.body(callee) is not None and obj is not None and \
                    tu.is_this(obj) and depth < 4 and callee['id'] != fn['id']:
                env2 = dict(env)
                for p_, a in zip(callee.get('params', []), args):
                    env2[p_['id']] = (a, env)
                self.walk(tu.body(callee), callee, env2, chain + [(n, fn)], depth + 1)
        for c in n.get('inner', ()):
            if isinstance(c, dict) and c.get('kind'):
                self.walk(c, fn, env, chain, depth)


def unconditional(tu, fn, node):
    """does the CFG element of `node` lie on every path through fn that returns normally"""
    g = tu.cfg(fn)
    if g is None:
        return False
    w = g.where(node['id'])
    if w is None:
        return False
    return g.postdominates(w, (g.entry, 0))


def is_current_chunk(tu, rw, e, env, depth=0):
    """does e denote events.back(): directly, through a member returning it, or a local reference"""
    x, env = rw.resolve(e, env)
    if x is None or depth > 4:
        return False
    if on_events(tu, x, ('back',)):
        return True
    if x.get('kind') == 'CXXMemberCallExpr':
        callee = tu.callee_fn(x)
        if callee is not None and callee.get('rec') == TEL and tu.cfg(callee) is not None:
            rets = [r for b, i, r in tu.cfg(callee).stmts() if r.get('kind') == 'ReturnStmt']
            return bool(rets) and all(tu.kids(r) and on_events(tu, tu.strip(tu.kids(r)[0]), ('back',)) for r in rets)
    return False


def check_recording(ctx, tu):
    R = 'R-C20-4'
    ctx.describe(R, 'each record call appends exactly one TraceEvent of its own type, built from its arguments, to the last '
                 'chunk of the thread (helpers expanded); whoever uses events.back() creates a chunk first when there is none '
                 'and adds chunks at the end; saveLog walks all threads, chunks and events in order under the registry mutex')
    n = 0
    memo = {}
    for name, ety in sorted(EVENT_FNS.items()):
        fs = [f for f in tu.fns(q=TEL + '::' + name, dep=False) if tu.cfg(f) is not None]
        if not fs:
            ctx.broken('%s: public record function ThreadEventList::%s not found' % (R, name))
            continue
        f = fs[0]
        n += 1
        inst = 'ThreadEventList::' + name
        keyb = '%s|%s|%s|' % (R, tu.fn_file(f), inst)
        rw = RecordWalk(tu)
        rw.walk(tu.body(f), f, {}, [])
        if rw.notes or any(tu.cfg(fn_).back_edges() for _, fn_, _, _ in rw.sites if tu.cfg(fn_) is not None) or tu.cfg(f).back_edges():
            ctx.undecided(R, inst, 'loop or lambda on the recording path', tu.fn_loc(f))
            continue
        if len(rw.sites) != 1:
            ctx.violation(R, inst, 'appends %d events per call (helpers expanded); required exactly one' % len(rw.sites), tu.fn_loc(f),
                          key=keyb + 'append-count')
            continue
        x, sfn, senv, chain = rw.sites[0]
        cond = [c for c, cfn in chain + [(x, sfn)] if not unconditional(tu, cfn, c)]
        if cond:
            ctx.violation(R, inst, 'the event is appended only on some paths (`%s` is conditional)' % tu.show(cond[0]), tu.loc(cond[0]),
                          key=keyb + 'append-conditional')
            continue
        sd, obj, args = tu.call_parts(x)
        if sd.get('q', '').split('::')[-1] not in ('push_back', 'emplace_back'):
            ctx.violation(R, inst, 'the event is added with `%s`; required at the end of the chunk (order of recording)' % tu.show(x),
                          tu.loc(x), key=keyb + 'append-position')
            continue
        if not is_current_chunk(tu, rw, obj, senv):
            ctx.violation(R, inst, 'the event is appended to `%s`; required the last chunk of the thread (events.back())'
                          % tu.show(obj), tu.loc(x), key=keyb + 'append-target')
            continue
        ev, eenv = rw.resolve(args[0], senv) if args else (None, senv)
        if ev is None or ev.get('kind') not in ('CXXTemporaryObjectExpr', 'CXXConstructExpr') or tu.sd(ev).get('rec') != TR + 'TraceEvent':
            ctx.undecided(R, inst, 'the appended value `%s` is not traced to a TraceEvent construction' % tu.show(args[0] if args else None),
                          tu.loc(x))
            continue
        ctor = tu.callee_fn(ev)
        cargs = tu.call_parts(ev)[2]
        if ctor is None or tu.cfg(ctor) is None:
            ctx.undecided(R, inst, 'TraceEvent constructor without a body in the facts', tu.loc(x))
            continue
        summ = ctor_summary(tu, ctor, memo)
        good = True
        ti = summ.get('type')
        tnode = rw.resolve(cargs[ti], eenv)[0] if isinstance(ti, int) and ti < len(cargs) else None
        tname = tnode.get('referencedDecl', {}).get('name') if tnode is not None and tnode.get('kind') == 'DeclRefExpr' else None
        if tname != ety:
            ctx.violation(R, inst, 'records an event of type %s; required EventType::%s' % (tname, ety), tu.loc(x), key=keyb + 'event-type')
            good = False
        want = {'beginEvent': {'name': 0, 'category': 1}, 'setMarker': {'name': 0, 'category': 1},
                'setCounter': {'name': 0, 'counterValue': 1}, 'endEvent': {}}[name]
        for fld, pi in sorted(want.items()):
            ai = summ.get(fld)
            src = None
            if ai is None and not any(fn_ for fn_ in [ctor] if tu.cfg(fn_) is None):
                # the constructor chain never mentions the field: is it left at its default on purpose?  A field that is
                # assigned from nothing is the recognised-wrong form only when the constructor is fully understood
                unknown_stmts = [x for b_, i_, x in tu.cfg(ctor).stmts() if x.get('kind') in ('CallExpr', 'CXXMemberCallExpr')
                                 and any(tu.is_this(y) or (y.get('kind') == 'UnaryOperator' and y.get('opcode') == '*')
                                         for y in tu.walk(x) if y.get('kind') in ('CXXThisExpr', 'UnaryOperator'))]
                if unknown_stmts and fld not in summ:
                    helper_sets = False
                    for x in unknown_stmts:
                        cf_ = tu.callee_fn(x)
                        if cf_ is None or tu.body(cf_) is None or any(
                                y.get('kind') == 'MemberExpr' and y.get('name') == fld for y in tu.walk(tu.body(cf_))):
                            helper_sets = True
                    if helper_sets:
                        ctx.undecided(R, inst, 'field `%s` may be set by a helper the constructor hands `*this` to' % fld, tu.loc(x))
                        good = False
                        continue
            if isinstance(ai, int) and ai < len(cargs):
                a, aenv = rw.resolve(cargs[ai], eenv)
                hops = 0
                while a is not None and a.get('kind') == 'CXXMemberCallExpr' and hops < 3 and \
                        tu.sd(a).get('q') == TEL + '::getCachedString':
                    a, aenv = rw.resolve(tu.call_parts(a)[2][0], aenv)
                    hops += 1
                if a is not None and a.get('kind') == 'DeclRefExpr':
                    src = a.get('referencedDecl', {}).get('id')
            if pi >= len(f['params']) or src != f['params'][pi]['id']:
                ctx.violation(R, inst, 'field `%s` of the recorded event is not taken from parameter `%s`'
                              % (fld, f['params'][pi]['name'] if pi < len(f['params']) else pi), tu.loc(x), key=keyb + 'field-' + fld)
                good = False
            elif f['params'][pi]['ct'].replace('const ', '').rstrip().endswith('*') and isinstance(ai, int) and hops == 0:
                # the event outlives the call: a string parameter must be stored through the thread's string cache
                ctx.violation(R, inst, 'the event stores the caller\'s pointer `%s` for its field `%s` without passing it through '
                              'getCachedString: the recorded event keeps pointing to the caller\'s buffer, which may be released or '
                              'reused before saveLog prints it' % (f['params'][pi]['name'], fld), tu.loc(x),
                              key=keyb + 'uncached-string-' + fld)
                good = False
        if good:
            ctx.ok(R, inst, 'one TraceEvent(%s, ...) appended to events.back() on every path%s'
                   % (ety, ' (via %s)' % ', '.join(cfn_['q'].split('::')[-1] for _, cfn_ in chain[1:] + [(None, sfn)]) if chain else ''),
                   tu.fn_loc(f))
    # ---- chunk management: every member that looks at events.back()
    managers = []
    for f in sorted(tu.functions.values(), key=lambda x_: (x_['f'], x_['l'])):
        if f.get('rec') == TEL and not f['dep'] and tu.cfg(f) is not None and \
                any(on_events(tu, x_, ('back',)) for b, i, x_ in tu.cfg(f).stmts()):
            managers.append(f)
    if not managers:
        ctx.broken('%s: no member of ThreadEventList uses events.back() (who appends to the current chunk?)' % R)
    for f in managers:
        n += 1
        inst = 'ThreadEventList::%s (chunk management)' % f['q'].split('::')[-1]
        keyb = '%s|%s|ThreadEventList chunk management|' % (R, tu.fn_file(f))
        g = tu.cfg(f)
        good = True
        returns_chunk = bool(EVVEC_RX.match(re.sub(r'&', '', f['fty'].split('(')[0]).strip().replace('std::vector<TraceEvent>', 'std::vector<rkcommon::tracing::TraceEvent>')))
        if returns_chunk:
            for b, i, x in [(b, i, x) for b, i, x in g.stmts() if x.get('kind') == 'ReturnStmt']:
                v = tu.strip(tu.kids(x)[0]) if tu.kids(x) else None
                if v is None or not on_events(tu, v, ('back',)):
                    ctx.violation(R, inst, 'returns `%s`; required events.back() (the chunk events are appended to last)' % tu.show(v),
                                  tu.loc(x), key=keyb + 'returns-last')
                    good = False
        adds = [(b, i, x) for b, i, x in g.stmts() if on_events(tu, x, ('push_back', 'emplace_back', 'push_front', 'emplace_front', 'insert', 'emplace'))]
        for b, i, x in adds:
            if tu.sd(x).get('q', '').split('::')[-1] not in ('push_back', 'emplace_back'):
                ctx.violation(R, inst, 'a new chunk is added with `%s`; required at the end of the list (order of chunks = order of '
                              'recording)' % tu.show(x), tu.loc(x), key=keyb + 'chunk-order')
                good = False
        empties = [b for b in g.blocks.values() if b.cond and on_events(tu, tu.strip(tu.node(b.cond)) or {}, ('empty',)) and len(b.succ) == 2]
        dom = g.dominators()
        for b, i, x in g.stmts():
            if on_events(tu, x, ('back',)):
                safe = any(g.dominates((ab.id, ai), (b.id, i)) for ab, ai, ax in adds)
                for eb in empties:
                    fe = eb.succ[1]
                    if fe is not None and fe in dom.get(b.id, ()) and fe != eb.succ[0]:
                        safe = True
                if not safe:
                    safe = _back_guarded(g, tu, b.id, i, adds, empties)
                if not safe:
                    flagged = [bb for bb in g.blocks.values() if bb.cond and tu.ref_decl(tu.node(bb.cond)) is not None]
                    if flagged:
                        ctx.undecided(R, inst, 'events.back() is guarded through the local flag `%s`; the correlation is not tracked'
                                      % tu.show(tu.node(flagged[0].cond)), tu.loc(x))
                    else:
                        ctx.violation(R, inst, 'events.back() can be evaluated while the list of chunks is still empty (first event '
                                      'of a thread)', tu.loc(x), key=keyb + 'back-on-empty')
                    good = False
                    break
        if not adds:
            ctx.violation(R, inst, 'no chunk is ever created', tu.fn_loc(f), key=keyb + 'no-chunk')
            good = False
        if good:
            ctx.ok(R, inst, 'creates a chunk when there is none, appends chunks at the end, uses events.back()', tu.fn_loc(f))
    # ---- saveLog iteration under the mutex
    fs = [f for f in tu.fns(q=TR + 'TraceRecorder::saveLog', dep=False) if tu.cfg(f) is not None]
    if fs:
        f = fs[0]
        n += 1
        check_iteration(ctx, tu, f, R)
    n += check_registry(ctx, tu, R)
    for q in (TR + 'TraceRecorder::getThreadTraceList',):
        for f in tu.fns(q=q, dep=False):
            if tu.cfg(f) is not None:
                n += 1
                check_locked(ctx, tu, f, R)
    ctx.floor(R, n, 7, '4 record functions, getCurrentEventList, saveLog iteration, getThreadTraceList locking')


def check_registry(ctx, tu, R):
    """an entry of the registry threadTrace, once created, is never replaced or removed: its list holds the events
    the thread recorded (also after the thread has exited)"""
    n = 0
    LIST_SP = 'std::shared_ptr<rkcommon::tracing::ThreadEventList>'
    for f in sorted(tu.functions.values(), key=lambda x: (x['f'], x['l'])):
        if f.get('rec') != TR + 'TraceRecorder' or f['dep'] or tu.cfg(f) is None or f.get('implicit'):
            continue
        g = tu.cfg(f)
        if not any(x.get('kind') == 'MemberExpr' and tu.member_of_this(x) == 'threadTrace' for b, i, x in g.stmts()):
            continue
        n += 1
        inst = '%s registry' % short_q(f['q'])
        keyb = '%s|%s|%s|' % (R, tu.fn_file(f), short_q(f['q']))

        def is_slot(e, depth=0):
            """does e denote the mapped value of a registry entry"""
            x = tu.strip(e, casts=True)
            if x is None or depth > 4:
                return False
            k = x.get('kind')
            if k == 'CXXOperatorCallExpr' and tu.sd(x).get('q', '').split('::')[-1] == 'operator[]':
                o = tu.call_parts(x)[1]
                return o is not None and tu.member_of_this(o) == 'threadTrace'
            if k == 'CXXMemberCallExpr' and tu.sd(x).get('q', '').split('::')[-1] == 'at':
                o = tu.call_parts(x)[1]
                return o is not None and tu.member_of_this(o) == 'threadTrace'
            if k == 'MemberExpr' and x.get('name') == 'second':
                return any(y.get('kind') == 'MemberExpr' and tu.member_of_this(y) == 'threadTrace' for y in tu.walk(x)) or \
                    any(is_iter(y) for y in tu.walk(x) if y.get('kind') == 'DeclRefExpr')
            if k == 'DeclRefExpr':
                vd = tu.node(x.get('referencedDecl', {}).get('id'))
                if vd is not None and vd.get('kind') == 'VarDecl' and tu.kids(vd) and '&' in vd.get('type', {}).get('qualType', ''):
                    return is_slot(tu.kids(vd)[0], depth + 1)
            return False

        def is_iter(y):
            vd = tu.node(y.get('referencedDecl', {}).get('id'))
            if vd is None or vd.get('kind') != 'VarDecl' or not tu.kids(vd):
                return False
            return any(z.get('kind') == 'CXXMemberCallExpr' and tu.sd(z).get('q', '').split('::')[-1] in ('find', 'begin', 'lower_bound')
                       and tu.call_parts(z)[1] is not None and tu.member_of_this(tu.call_parts(z)[1]) == 'threadTrace'
                       for z in tu.walk(tu.kids(vd)[0]))

        writes = []
        removes = []
        taken = []
        for b, i, x in g.stmts():
            k = x.get('kind')
            if k == 'CXXOperatorCallExpr' and tu.sd(x).get('q', '').split('::')[-1] == 'operator=':
                o = tu.call_parts(x)[1]
                if o is not None and is_slot(o):
                    writes.append((b.id, i, x))
            if k == 'CXXMemberCallExpr':
                sd, obj, args = tu.call_parts(x)
                nm = sd.get('q', '').split('::')[-1]
                if obj is not None and tu.member_of_this(obj) == 'threadTrace' and nm in ('erase', 'clear', 'extract'):
                    removes.append((b.id, i, x))
                if obj is not None and tu.member_of_this(obj) == 'threadTrace' and nm == 'insert_or_assign':
                    writes.append((b.id, i, x))
                if nm == 'swap' and args and ((obj is not None and tu.member_of_this(obj) == 'threadTrace') or
                                              tu.member_of_this(tu.strip(args[0], casts=True)) == 'threadTrace'):
                    taken.append((b.id, i, x))
            if k == 'CallExpr' and tu.sd(x).get('q') in ('std::move', 'std::swap', 'std::exchange') and \
                    any(tu.member_of_this(tu.strip(a_, casts=True)) == 'threadTrace' for a_ in tu.call_parts(x)[2]):
                taken.append((b.id, i, x))
            if k == 'CXXOperatorCallExpr' and tu.sd(x).get('q', '').split('::')[-1] == 'operator=' and \
                    tu.call_parts(x)[1] is not None and tu.member_of_this(tu.call_parts(x)[1]) == 'threadTrace':
                taken.append((b.id, i, x))
                if obj is not None and is_slot(obj) and nm in ('reset', 'swap'):
                    writes.append((b.id, i, x))
        good = True
        for bid, i, x in removes:
            ctx.violation(R, inst, '`%s` removes entries of the registry: the events recorded by those threads are no longer written by '
                          'saveLog' % tu.show(x), tu.loc(x), key=keyb + 'registry-entry-removed')
            good = False
        for bid, i, x in taken:
            ctx.violation(R, inst, '`%s` moves the content of the registry out of the recorder: every thread that has recorded before '
                          'keeps its list in its thread-local cache and goes on appending to it, but the recorder no longer knows '
                          'that list, so nothing these threads record afterwards is written by any later saveLog'
                          % tu.show(x), tu.loc(x), key=keyb + 'registry-entry-removed')
            good = False
        # edges on which the entry is known to be absent / empty
        absent_edges = set()
        for b in g.blocks.values():
            if not b.cond or len(b.succ) != 2:
                continue
            c = tu.strip(tu.node(b.cond))
            while c is not None and c.get('kind') == 'BinaryOperator' and c.get('opcode') in ('&&', '||'):
                c = tu.strip(tu.kids(c)[1])
            neg = False
            while c is not None and c.get('kind') == 'UnaryOperator' and c.get('opcode') == '!':
                neg = not neg
                c = tu.strip(tu.kids(c)[0])
            if c is None:
                continue
            absent_when_true = None
            k = c.get('kind')
            if k in ('BinaryOperator', 'CXXOperatorCallExpr') and \
                    (c.get('opcode') in ('==', '!=') or tu.sd(c).get('q', '').split('::')[-1] in ('operator==', 'operator!=')):
                ks = tu.kids(c) if k == 'BinaryOperator' else tu.kids(c)[1:]
                eq = (c.get('opcode') == '==') if k == 'BinaryOperator' else tu.sd(c).get('q', '').endswith('==')
                sides = [tu.strip(y, casts=True) for y in ks]
                is_end = [y is not None and ((y.get('kind') == 'CXXMemberCallExpr' and tu.sd(y).get('q', '').split('::')[-1] in ('end', 'cend')
                                              and tu.call_parts(y)[1] is not None and tu.member_of_this(tu.call_parts(y)[1]) == 'threadTrace')
                                             or y.get('kind') == 'CXXNullPtrLiteralExpr') for y in sides]
                if len(sides) == 2 and any(is_end):
                    other = sides[1] if is_end[0] else sides[0]
                    if other is not None and ((other.get('kind') == 'DeclRefExpr' and (is_iter(other) or is_slot(other))) or is_slot(other)
                                              or any(z.get('kind') == 'MemberExpr' and tu.member_of_this(z) == 'threadTrace' for z in tu.walk(other))):
                        absent_when_true = eq
            elif LIST_SP in re.sub(r'\bconst\s+', '', tu.sd(c).get('ct', '')) or \
                    (k == 'CXXMemberCallExpr' and tu.sd(c).get('q', '').endswith('operator bool') and tu.call_parts(c)[1] is not None
                     and is_slot(tu.call_parts(c)[1])):
                tgt = tu.call_parts(c)[1] if k == 'CXXMemberCallExpr' else c
                if is_slot(tgt):
                    absent_when_true = False
            if absent_when_true is None:
                continue
            if neg:
                absent_when_true = not absent_when_true
            absent_edges.add((b.id, 0 if absent_when_true else 1))
        for bid, i, x in writes:
            # is the write reachable without passing an edge on which the entry is known to be absent?
            seen, work, hit = set(), [g.entry], False
            while work:
                cur = work.pop()
                if cur in seen:
                    continue
                seen.add(cur)
                if cur == bid:
                    hit = True
                    break
                for si, sc in enumerate(g.blocks[cur].succ):
                    if sc is not None and (cur, si) not in absent_edges:
                        work.append(sc)
            if hit:
                ctx.violation(R, inst, '`%s` can replace the list of an entry that already exists (no test that the entry is absent or '
                              'empty lies on every path to it): the events that list holds - e.g. those of a thread that has exited and '
                              'whose id was reused - are dropped from the log' % tu.show(x), tu.loc(x),
                              key=keyb + 'registry-entry-replaced')
                good = False
        if good:
            ctx.ok(R, inst, '%d write(s) to registry entries, each only on paths where the entry is absent / empty; no removal'
                   % len(writes), tu.fn_loc(f))
    return n


def check_cached_names(ctx, tu):
    """R-C20-7: the name / category pointers stored in the events are the ones getCachedString returns; they must stay
    valid until saveLog prints them, i.e. point into storage that never moves while names are added"""
    R = 'R-C20-7'
    ctx.describe(R, 'getCachedString returns a pointer into storage whose address is stable while further names are cached '
                 '(a heap string behind a smart pointer, or a value of a node-based container), never into a std::string that is '
                 'an element of a growing contiguous container')
    fs = [f for f in tu.fns(q=TEL + '::getCachedString', dep=False) if tu.cfg(f) is not None]
    if not fs:
        ctx.broken('%s: anchor ThreadEventList::getCachedString not found' % R)
        return
    f = fs[0]
    inst = 'ThreadEventList::getCachedString'
    key = '%s|%s|%s|' % (R, tu.fn_file(f), inst)
    rec = tu.records.get(f.get('recid'))
    ftypes = {fd['name']: fd['ct'] for fd in rec['fields']} if rec else {}
    g = tu.cfg(f)
    verdicts = []

    def storage_of(e, depth=0):
        """('smart', text) | ('member', name) | ('param',) | None : where the std::string whose characters are returned lives"""
        x = tu.strip(e, casts=True)
        if x is None or depth > 8:
            return None
        k = x.get('kind')
        if k in ('CXXOperatorCallExpr', 'CXXMemberCallExpr'):
            sd, obj, args = tu.call_parts(x)
            nm = sd.get('q', '').split('::')[-1]
            if nm in ('operator->', 'operator*', 'get') and obj is not None and \
                    re.search(r'std::(shared_ptr|unique_ptr)<std::basic_string<char>', tu.sd(tu.strip(obj)).get('ct', '')):
                return ('smart', tu.show(obj))
            if obj is not None:
                return storage_of(obj, depth + 1)
            return None
        if k == 'MemberExpr':
            nm = tu.member_of_this(x)
            if nm is not None:
                return ('member', nm)
            ks = tu.kids(x)
            return storage_of(ks[0], depth + 1) if ks else None
        if k == 'UnaryOperator' and x.get('opcode') == '*':
            return storage_of(tu.kids(x)[0], depth + 1)
        if k == 'DeclRefExpr':
            vd = tu.node(x.get('referencedDecl', {}).get('id'))
            if vd is None:
                return None
            if vd.get('kind') == 'ParmVarDecl':
                return ('param',)
            if vd.get('kind') == 'VarDecl' and tu.kids(vd):
                if re.search(r'std::(shared_ptr|unique_ptr)<std::basic_string<char>', vd.get('type', {}).get('qualType', '').replace('std::string', 'std::basic_string<char>')) \
                        or 'shared_ptr<std::basic_string<char>' in tu.sd(x).get('ct', ''):
                    return ('smart', vd.get('name'))
                return storage_of(tu.kids(vd)[0], depth + 1)
        return None

    for b, i, x in g.stmts():
        if x.get('kind') != 'ReturnStmt' or not tu.kids(x):
            continue
        v = tu.strip(tu.kids(x)[0], casts=True)
        if v is None or v.get('kind') in ('CXXNullPtrLiteralExpr', 'GNUNullExpr', 'IntegerLiteral'):
            continue
        if v.get('kind') == 'CXXMemberCallExpr' and tu.sd(v).get('q', '').split('::')[-1] in ('c_str', 'data') and \
                tu.sd(v).get('q', '').startswith('std::basic_string'):
            st = storage_of(tu.call_parts(v)[1])
            verdicts.append((st, x))
        else:
            verdicts.append((None, x))
    growth = {}
    for fn in tu.functions.values():
        if fn.get('rec') != TEL or tu.body(fn) is None:
            continue
        for x in tu.walk(tu.body(fn)):
            if x.get('kind') == 'CXXMemberCallExpr':
                sd, obj, args = tu.call_parts(x)
                nm = sd.get('q', '').split('::')[-1]
                m = tu.member_of_this(obj) if obj is not None else None
                if m is not None and nm in ('push_back', 'emplace_back', 'insert', 'emplace', 'resize', 'reserve', 'shrink_to_fit'):
                    if m not in growth or (nm in ('push_back', 'emplace_back') and
                                           tu.sd(growth[m]).get('q', '').split('::')[-1] not in ('push_back', 'emplace_back')):
                        growth[m] = x
    good = True
    caches = [fd['name'] for fd in rec['fields'] if re.match(r'^std::(unordered_map|map|vector|list|deque|set|unordered_set|forward_list)<', fd['ct'])
              and 'std::basic_string<char>' in fd['ct']] if rec else []
    for fn in sorted(tu.functions.values(), key=lambda x_: (x_['f'], x_['l'])):
        if not fn['q'].startswith(TR) or tu.body(fn) is None or fn.get('dtor'):
            continue
        for x in tu.walk(tu.body(fn)):
            if x.get('kind') not in ('CXXMemberCallExpr', 'CXXOperatorCallExpr'):
                continue
            sd, obj, args = tu.call_parts(x)
            nm = sd.get('q', '').split('::')[-1]
            o = tu.strip(obj) if obj is not None else None
            if o is None or o.get('kind') != 'MemberExpr' or o.get('name') not in caches or \
                    nm not in ('clear', 'erase', 'pop_back', 'pop_front', 'swap', 'extract', 'operator=', 'resize', 'assign'):
                continue
            ev_cleared = any(y.get('kind') == 'CXXMemberCallExpr' and tu.sd(y).get('q', '').split('::')[-1] == 'clear' and
                             tu.call_parts(y)[1] is not None and tu.strip(tu.call_parts(y)[1]).get('name') == 'events'
                             for y in tu.walk(tu.body(fn)))
            if ev_cleared:
                continue
            ctx.violation(R, inst, '`%s` in %s destroys cached names while the recorded events that point to them are kept: the next '
                          'saveLog prints dangling name / category pointers' % (tu.show(x), fn['q'].replace(TR, '')), tu.loc(x),
                          key=key + 'cached-names-destroyed')
            good = False
    if not verdicts:
        ctx.undecided(R, inst, 'no returned string pointer found', tu.fn_loc(f))
        return
    for st, x in verdicts:
        if st is None:
            ctx.undecided(R, inst, 'the storage behind the returned pointer `%s` is not understood' % tu.show(tu.kids(x)[0]), tu.loc(x))
            good = False
        elif st[0] == 'smart':
            continue
        elif st[0] == 'param':
            ctx.undecided(R, inst, 'returns a pointer into a string parameter', tu.loc(x))
            good = False
        elif st[0] == 'member':
            ct = ftypes.get(st[1], '')
            contiguous = re.match(r'^std::(vector|basic_string)<', ct) or ct.startswith('rkcommon::containers::')
            by_value = 'std::basic_string<char>' in ct and not re.search(r'(shared_ptr|unique_ptr)<std::basic_string<char>', ct)
            if re.match(r'^std::vector<', ct) and by_value and st[1] in growth:
                ctx.violation(R, inst, 'returns the characters of a std::string stored by value in the vector `%s`; `%s` makes the vector '
                              'grow, which moves its elements - a short string keeps its characters inside the object, so the '
                              'pointers handed out earlier (and stored in the recorded events) dangle when saveLog prints them'
                              % (st[1], tu.show(growth[st[1]])), tu.loc(x), key=key + 'cached-name-relocated')
                good = False
            elif re.match(r'^std::(unordered_map|map|list|forward_list|unordered_set|set|deque)<', ct):
                continue          # node based (or end-insertion stable): references to elements survive insertions
            else:
                ctx.undecided(R, inst, 'returns a pointer into member `%s` (%s); whether its elements keep their address is not known'
                              % (st[1], ct), tu.loc(x))
                good = False
    if good:
        ctx.ok(R, inst, '%d returned pointer(s), all into address-stable string storage' % len(verdicts), tu.fn_loc(f))


EVENT_PTR_RX = re.compile(r'(const\s+)?(rkcommon::tracing::)?TraceEvent(\s+const)?\s*\*')
EVENT_VEC_RX = re.compile(r'^(const\s+)?std::vector<rkcommon::tracing::TraceEvent\b')


def check_event_addresses(ctx, tu):
    """R-C20-13: an address of a recorded event that a ThreadEventList keeps from one recording call to the next must stay
    valid: the chunk it points into never moves its elements, i.e. it is reserved to the full chunk size when it is created
    and never grows beyond that"""
    R = 'R-C20-13'
    ctx.describe(R, 'a member of ThreadEventList that holds pointers to recorded events only ever points into chunks whose '
                 'storage does not move: every chunk is reserved to the chunk size on creation (or no such pointers are kept)')
    rec = tu.records_by_type.get(TEL) or ([r for r in tu.records.values() if r.get('q') == TEL] or [None])[0]
    if rec is None:
        ctx.broken('%s: record ThreadEventList not found' % R)
        return
    inst = 'ThreadEventList event addresses'
    holders = [fd for fd in rec['fields'] if EVENT_PTR_RX.search(fd.get('ct', ''))]
    fns = [f for f in tu.functions.values() if f.get('rec') == TEL and not f['dep'] and tu.body(f) is not None]
    file = tu.fn_file(fns[0]) if fns else '?'
    keyb = '%s|%s|ThreadEventList|' % (R, file)
    if not holders:
        ctx.ok(R, inst, 'no member of ThreadEventList holds pointers to recorded events', file)
        return

    def elem_addr(e):
        """does e take the address of an element of a std::vector<TraceEvent>"""
        for x in tu.walk(e):
            if x.get('kind') == 'UnaryOperator' and x.get('opcode') == '&':
                t = tu.strip(tu.kids(x)[0], casts=True)
                if t is not None and t.get('kind') in ('CXXMemberCallExpr', 'CXXOperatorCallExpr'):
                    sd, obj, args = tu.call_parts(t)
                    nm = sd.get('q', '').split('::')[-1]
                    if nm in ('back', 'front', 'operator[]', 'at', 'operator*') and obj is not None and \
                            EVENT_VEC_RX.search(tu.sd(tu.strip(obj, casts=True)).get('ct', '').replace('&', '').strip()):
                        return x
            if x.get('kind') == 'CXXMemberCallExpr' and tu.sd(x).get('q', '').split('::')[-1] == 'data' and \
                    tu.call_parts(x)[1] is not None and \
                    EVENT_VEC_RX.search(tu.sd(tu.strip(tu.call_parts(x)[1], casts=True)).get('ct', '').replace('&', '').strip()):
                return x
        return None

    names = {fd['name'] for fd in holders}
    stores = []
    for f in fns:
        for x in tu.walk(tu.body(f)):
            k = x.get('kind')
            if k == 'CXXMemberCallExpr':
                sd, obj, args = tu.call_parts(x)
                if obj is not None and tu.member_of_this(obj) in names and \
                        sd.get('q', '').split('::')[-1] in ('push_back', 'emplace_back', 'push', 'emplace', 'insert', 'push_front'):
                    for a in args:
                        if elem_addr(a) is not None:
                            stores.append((f, x, tu.member_of_this(obj)))
            if k in ('BinaryOperator', 'CXXOperatorCallExpr') and (x.get('opcode') == '=' or
                                                                   tu.sd(x).get('q', '').split('::')[-1] == 'operator='):
                ks = tu.kids(x) if k == 'BinaryOperator' else tu.kids(x)[1:]
                if len(ks) == 2 and any(y.get('kind') == 'MemberExpr' and tu.member_of_this(y) in names for y in tu.walk(ks[0])) \
                        and elem_addr(ks[1]) is not None:
                    nm_ = [tu.member_of_this(y) for y in tu.walk(ks[0]) if y.get('kind') == 'MemberExpr' and tu.member_of_this(y) in names]
                    stores.append((f, x, nm_[0]))
    if not stores:
        ctx.undecided(R, inst, 'member `%s` can hold pointers to events but no store of an element address into it is recognised'
                      % sorted(names)[0], file)
        return
    # do the chunks keep their elements in place?
    reserves, limits = [], []
    for f in fns:
        for x in tu.walk(tu.body(f)):
            if x.get('kind') == 'CXXMemberCallExpr' and tu.call_parts(x)[1] is not None and \
                    EVENT_VEC_RX.search(tu.sd(tu.strip(tu.call_parts(x)[1], casts=True)).get('ct', '').replace('&', '').strip()):
                nm = tu.sd(x).get('q', '').split('::')[-1]
                if nm == 'reserve' and tu.call_parts(x)[2]:
                    v = Evaluator(tu).ev(tu.call_parts(x)[2][0])
                    reserves.append((x, v.const_value() if v is not None else None))
            if x.get('kind') == 'BinaryOperator' and x.get('opcode') in ('>=', '==', '<', '>'):
                l, r = tu.kids(x)
                ls = tu.strip(l, casts=True)
                if ls is not None and ls.get('kind') == 'CXXMemberCallExpr' and tu.sd(ls).get('q', '').split('::')[-1] == 'size' and \
                        tu.call_parts(ls)[1] is not None and \
                        EVENT_VEC_RX.search(tu.sd(tu.strip(tu.call_parts(ls)[1], casts=True)).get('ct', '').replace('&', '').strip()):
                    v = Evaluator(tu).ev(r)
                    if v is not None and v.const_value() is not None:
                        limits.append((x, v.const_value(), x.get('opcode')))
    f0, x0, nm0 = stores[0]
    if not reserves:
        ctx.violation(R, inst, '`%s` in %s keeps the address of an event inside the current chunk in the member `%s`, but the chunks '
                      'are ordinary growing vectors (no reserve of the chunk size when a chunk is created): the next push_back '
                      'that makes the chunk grow moves every event, the kept pointers dangle, and the begin event they are used '
                      'for later is read from freed memory (wrong or garbage names in the log, or a crash)'
                      % (tu.show(x0), short_q(f0['q']), nm0), tu.loc(x0), key=keyb + 'event-pointer-into-growing-chunk')
        return
    ks_ = [k_ for x_, k_ in reserves]
    ge = [v_ for x_, v_, op_ in limits if op_ in ('>=', '==')]
    if None in ks_ or not ge:
        ctx.undecided(R, inst, 'pointers to events are kept in `%s`; the reserved chunk capacity or the fullness test is not a '
                      'constant that can be compared' % nm0, tu.loc(x0))
        return
    if min(ks_) < max(ge):
        ctx.violation(R, inst, '`%s` keeps event addresses in `%s`, but a chunk is reserved for %d events and only replaced when it '
                      'holds %d: it grows beyond its reservation and moves the events the kept pointers refer to'
                      % (tu.show(x0), nm0, min(ks_), max(ge)), tu.loc(x0), key=keyb + 'event-pointer-into-growing-chunk')
        return
    ctx.ok(R, inst, 'event addresses kept in `%s` point into chunks reserved for %d events and replaced at %d' % (nm0, min(ks_), max(ge)),
           tu.loc(x0))



def check_utilization_divisor(ctx, tu):
    """R-C20-8: the CPU utilisation printed for an end event is elapsed_cpu / elapsed_wall; the divisor must not be a
    time difference truncated to whole ticks of a coarser unit (0 for any interval shorter than one tick -> inf / nan in
    the JSON) unless a zero divisor is excluded by a test"""
    R = 'R-C20-8'
    ctx.describe(R, 'cpuUtilization divides by the wall-clock interval at the clock\'s own resolution (floating duration), or guards '
                 'the division: an interval truncated to whole microseconds / milliseconds is 0 for short begin/end pairs')
    fs = [f for f in tu.fns(q=TR + 'cpuUtilization', dep=False) if tu.cfg(f) is not None]
    if not fs:
        ctx.broken('%s: anchor cpuUtilization not found' % R)
        return
    f = fs[0]
    inst = 'cpuUtilization'
    key = '%s|%s|%s|' % (R, tu.fn_file(f), inst)
    g = tu.cfg(f)
    divs = [(b, i, x) for b, i, x in g.stmts() if x.get('kind') == 'BinaryOperator' and x.get('opcode') == '/' and
            re.search(r'float|double', tu.sd(x).get('ct', ''))]
    if not divs:
        ctx.undecided(R, inst, 'no floating point division found', tu.fn_loc(f))
        return

    def casts_in(e, depth=0, seen=None):
        seen = set() if seen is None else seen
        out = []
        if e is None or depth > 5:
            return out
        for y in tu.walk(e):
            if y.get('kind') == 'CallExpr' and tu.sd(y).get('q') == 'std::chrono::duration_cast':
                out.append(y)
            if y.get('kind') == 'DeclRefExpr':
                did = y.get('referencedDecl', {}).get('id')
                vd = tu.node(did)
                if vd is not None and vd.get('kind') == 'VarDecl' and tu.kids(vd) and did not in seen:
                    seen.add(did)
                    out += casts_in(tu.kids(vd)[0], depth + 1, seen)
        return out

    good = True
    n_ok = 0
    for b, i, x in divs:
        den = tu.kids(x)[1]
        cs = casts_in(den)
        if not cs:
            continue           # not a time interval
        trunc = [c for c in cs if re.match(r'^std::chrono::duration<(long|int|long long|short|unsigned long)\b', tu.sd(c).get('ct', ''))]
        if not trunc:
            n_ok += 1
            continue
        # a test of the divisor that dominates the division excuses it
        dvars = {y.get('referencedDecl', {}).get('id') for y in tu.walk(den) if y.get('kind') == 'DeclRefExpr'}
        guarded = False
        dom = g.dominators()
        for bb in g.blocks.values():
            if bb.cond and len(bb.succ) == 2 and bb.id in dom.get(b.id, ()) and bb.id != b.id:
                c = tu.node(bb.cond)
                if any(y.get('kind') == 'DeclRefExpr' and y.get('referencedDecl', {}).get('id') in dvars for y in tu.walk(c)):
                    guarded = True
        if guarded:
            n_ok += 1
            continue
        ctx.violation(R, inst, 'the divisor `%s` is built from `%s` of type %s: the interval is truncated to whole ticks, so it is 0 '
                      'for a begin/end pair closed within one tick and the utilisation becomes inf or nan, which saveLog prints into '
                      'the JSON' % (tu.show(den), tu.show(trunc[0]), tu.sd(trunc[0]).get('ct')), tu.loc(x), key=key + 'truncated-divisor')
        good = False
    if good and n_ok:
        ctx.ok(R, inst, '%d division(s) by a wall-clock interval kept at clock resolution (or guarded)' % n_ok, tu.fn_loc(f))
    elif good:
        ctx.undecided(R, inst, 'no division by a time interval recognised', tu.fn_loc(f))


def check_lock_reentry(ctx, tu):
    """R-C20-9: threadTraceMutex is a plain std::mutex: while a function holds it, nothing it calls may lock it again"""
    R = 'R-C20-9'
    ctx.describe(R, 'no function of the tracing unit that holds threadTraceMutex calls (directly or through other tracing functions) '
                 'a function that locks it again: the mutex is not recursive, the second lock never returns')
    lockers = {}
    for f in tu.functions.values():
        if not f['q'].startswith(TR) or tu.body(f) is None:
            continue
        for x in tu.walk(tu.body(f)):
            if x.get('kind') == 'VarDecl' and re.search(r'std::(lock_guard|unique_lock|scoped_lock)<', x.get('type', {}).get('qualType', '')) \
                    and any(y.get('kind') == 'MemberExpr' and y.get('name') == 'threadTraceMutex' for y in tu.walk(x)):
                lockers[f['id']] = (f, x)
            if x.get('kind') == 'CXXMemberCallExpr' and tu.sd(x).get('q', '').endswith('::lock') and \
                    any(y.get('kind') == 'MemberExpr' and y.get('name') == 'threadTraceMutex' for y in tu.walk(x)):
                lockers[f['id']] = (f, x)
    if not lockers:
        ctx.broken('%s: no function locks threadTraceMutex' % R)
        return

    def callees(fn):
        out = []
        for x in tu.walk(tu.body(fn)):
            if x.get('kind') in ('CallExpr', 'CXXMemberCallExpr'):
                cf = tu.callee_fn(x)
                if cf is not None and cf['q'].startswith(TR) and tu.body(cf) is not None:
                    out.append((x, cf))
        return out

    def reaches_locker(fn, seen, chain):
        if fn['id'] in lockers:
            return chain + [fn['q'].replace(TR, '')]
        if fn['id'] in seen or len(chain) > 6:
            return None
        seen.add(fn['id'])
        for x, cf in callees(fn):
            r = reaches_locker(cf, seen, chain + [fn['q'].replace(TR, '')])
            if r:
                return r
        return None

    n = 0
    for fid, (f, lockdecl) in sorted(lockers.items(), key=lambda kv: kv[1][0]['q']):
        n += 1
        inst = '%s holds threadTraceMutex' % f['q'].replace(TR, '')
        g = tu.cfg(f)
        bad = None
        order = [x.get('id') for x in tu.walk(tu.body(f))]
        lpos = order.index(lockdecl['id']) if lockdecl['id'] in order else -1
        for x, cf in callees(f):
            if x['id'] in order and order.index(x['id']) < lpos:
                continue          # called before the lock is taken
            chain = reaches_locker(cf, set(), [])
            if chain:
                bad = (x, chain)
                break
        if bad:
            x, chain = bad
            ctx.violation(R, inst, '`%s` is called while threadTraceMutex is held and leads to %s, which locks the same (non-recursive) '
                          'mutex again: the call never returns (e.g. when the saving thread has no event list yet)'
                          % (tu.show(x), ' -> '.join(chain)), tu.loc(x),
                          key='%s|%s|%s|lock-reentered' % (R, tu.fn_file(f), f['q'].replace(TR, '')))
        else:
            ctx.ok(R, inst, 'none of the tracing functions called under the lock takes it again', tu.fn_loc(f))
    ctx.floor(R, n, 2, 'getThreadTraceList and saveLog')


def check_shared_state(ctx, tu):
    """R-C20-11: namespace-scope state of the tracing unit that is not thread_local is written only by its static
    initialiser or under a lock: the public functions are called from many threads (first use included)"""
    R = 'R-C20-11'
    ctx.describe(R, 'non-thread_local namespace-scope variables of the tracing unit (the recorder) are not assigned in functions '
                 'without a lock / call_once: a check-then-create on first use races when two threads trace for the first time')
    n = 0
    bad = {}
    for f in sorted(tu.functions.values(), key=lambda x: (x['f'], x['l'])):
        if not f['q'].startswith(TR) or tu.body(f) is None or tu.fn_file(f) != 'rkcommon/tracing/Tracing.cpp':
            continue
        g = tu.cfg(f)
        n += 1
        for x in tu.walk(tu.body(f)):
            tgt = None
            if x.get('kind') == 'BinaryOperator' and x.get('opcode') == '=':
                tgt = tu.kids(x)[0]
            elif x.get('kind') == 'CXXOperatorCallExpr' and tu.sd(x).get('q', '').split('::')[-1] == 'operator=':
                tgt = tu.call_parts(x)[1]
            elif x.get('kind') == 'CXXMemberCallExpr' and tu.sd(x).get('q', '').split('::')[-1] in ('reset', 'swap', 'emplace'):
                tgt = tu.call_parts(x)[1]
            did = tu.ref_decl(tgt) if tgt is not None else None
            vd = tu.node(did) if did else None
            if vd is None or vd.get('kind') != 'VarDecl' or vd.get('tls') or tu.enclosing_fn(vd) is not None:
                continue
            if re.search(r'std::atomic<', vd.get('type', {}).get('qualType', '')):
                continue
            locked = any(y.get('kind') == 'VarDecl' and re.search(r'std::(lock_guard|unique_lock|scoped_lock)<', y.get('type', {}).get('qualType', ''))
                         for y in tu.walk(tu.body(f))) or \
                any(y.get('kind') == 'CallExpr' and tu.sd(y).get('q') == 'std::call_once' for y in tu.walk(tu.body(f)))
            if not locked:
                bad.setdefault(vd.get('name'), (x, f, vd))
    if bad:
        for name, (x, f, vd) in sorted(bad.items()):
            ctx.violation(R, '%s writes `%s`' % (f['q'].replace(TR, ''), name), 'the namespace-scope variable `%s` (%s, not thread_local) is '
                          'assigned in %s without a lock or call_once: two threads that use the tracing API for the first time at the same '
                          'moment both see it unset and both create / assign it - a data race; one recorder and the thread lists '
                          'registered with it are lost' % (name, vd.get('type', {}).get('qualType', '?'), f['q'].replace(TR, '')),
                          tu.loc(x), key='%s|%s|%s|unsynchronised-shared-write' % (R, tu.fn_file(f), f['q'].replace(TR, '')))
    else:
        ctx.ok(R, 'tracing unit', '%d functions: no unsynchronised write to namespace-scope state' % n, 'rkcommon/tracing/Tracing.cpp')
    ctx.floor(R, n, 15, 'functions of the tracing unit')


def check_log_file_open(ctx, tu):
    """R-C20-10: saveLog replaces the log file: the file is opened in a mode that discards previous contents"""
    R = 'R-C20-10'
    ctx.describe(R, 'the log file is opened so that earlier contents are discarded (ofstream in its default / trunc mode, fopen "w", '
                 'open with O_TRUNC): a shorter log written over a longer one must not keep the old tail')
    fs = [f for f in tu.fns(q=TR + 'TraceRecorder::saveLog', dep=False) if tu.cfg(f) is not None]
    if not fs:
        ctx.broken('%s: anchor TraceRecorder::saveLog not found' % R)
        return
    f = fs[0]
    inst = 'TraceRecorder::saveLog log file'
    key = '%s|%s|TraceRecorder::saveLog|' % (R, tu.fn_file(f))
    path_param = f['params'][0]['id'] if f.get('params') else None
    opens = []

    def is_log_path(a, env, depth=0):
        x_ = tu.strip(a, casts=True)
        if x_ is None or depth > 6:
            return False
        for y in tu.walk(x_):
            if y.get('kind') == 'DeclRefExpr':
                did = y.get('referencedDecl', {}).get('id')
                if did == path_param:
                    return True
                if did in env and is_log_path(env[did][0], env[did][1], depth + 1):
                    return True
        return False

    class _Opens(list):
        def append(self, item, _env=None):
            list.append(self, item)

    fns, seen = [(f, {})], set()
    while fns:
        fn, env = fns.pop()
        if fn['id'] in seen:
            continue
        seen.add(fn['id'])
        n_before = len(opens)
        for x in tu.walk(tu.body(fn)):
            k = x.get('kind')
            # the path operand of the constructs below must be the file name given to saveLog
            patharg = None
            if k == 'VarDecl' and tu.kids(x):
                c_ = tu.strip(tu.kids(x)[0])
                a_ = tu.call_parts(c_)[2] if c_ is not None and c_.get('kind') == 'CXXConstructExpr' else []
                patharg = a_[0] if a_ else None
            elif k in ('CallExpr', 'CXXMemberCallExpr') and tu.call_parts(x)[2]:
                patharg = tu.call_parts(x)[2][1] if tu.sd(x).get('q') == 'openat' and len(tu.call_parts(x)[2]) > 1 else tu.call_parts(x)[2][0]
            if k in ('CallExpr', 'CXXMemberCallExpr'):
                cf_ = tu.callee_fn(x)
                if cf_ is not None and cf_['q'].startswith(TR) and tu.body(cf_) is not None and len(seen) < 30:
                    env2 = dict(env)
                    for p_, a2 in zip(cf_.get('params', []), tu.call_parts(x)[2]):
                        env2[p_['id']] = (a2, env)
                    fns.append((cf_, env2))
            if patharg is None or not is_log_path(patharg, env):
                continue
            if k == 'VarDecl' and re.search(r'\bofstream\b|basic_ofstream|\bfstream\b|basic_fstream', x.get('type', {}).get('qualType', '')) and tu.kids(x):
                c = tu.strip(tu.kids(x)[0])
                args = [a for a in tu.call_parts(c)[2]] if c is not None and c.get('kind') == 'CXXConstructExpr' else []
                if args:
                    mode = None
                    if len(args) >= 2 and args[1].get('kind') != 'CXXDefaultArgExpr':
                        cv = tu.sd(tu.strip(args[1])).get('cv')
                        mode = int(cv) if cv is not None else 'unknown'
                    opens.append(('ofstream', x, mode))
            if k == 'CXXMemberCallExpr' and tu.sd(x).get('q', '').split('::')[-1] == 'open' and \
                    re.search(r'basic_(o)?fstream', tu.sd(x).get('q', '')):
                args = tu.call_parts(x)[2]
                mode = None
                if len(args) >= 2 and args[1].get('kind') != 'CXXDefaultArgExpr':
                    cv = tu.sd(tu.strip(args[1])).get('cv')
                    mode = int(cv) if cv is not None else 'unknown'
                opens.append(('ofstream', x, mode))
            if k == 'CallExpr' and tu.sd(x).get('q') in ('fopen', 'std::fopen'):
                m = tu.strip(tu.call_parts(x)[2][1], casts=True) if len(tu.call_parts(x)[2]) == 2 else None
                opens.append(('fopen', x, c_string(m.get('value')) if m is not None and m.get('kind') == 'StringLiteral' else 'unknown'))
            if k == 'CallExpr' and tu.sd(x).get('q') in ('open', 'open64', 'openat', 'creat'):
                args = tu.call_parts(x)[2]
                fl = args[1] if tu.sd(x).get('q') in ('open', 'open64') and len(args) >= 2 else (args[2] if tu.sd(x).get('q') == 'openat' and len(args) >= 3 else None)
                cv = tu.sd(tu.strip(fl)).get('cv') if fl is not None else None
                if cv is None and fl is not None:
                    pv = Evaluator(tu).ev(fl)
                    cv = pv.const_value() if pv is not None else None
                opens.append(('open', x, int(cv) if cv is not None else ('creat' if tu.sd(x).get('q') == 'creat' else 'unknown')))
    if not opens:
        ctx.undecided(R, inst, 'no construct that opens the log file was recognised', tu.fn_loc(f))
        return
    good = True
    for kind, x, mode in opens:
        if mode == 'unknown':
            ctx.undecided(R, inst, 'the open mode of `%s` is not a constant' % tu.show(x) if x.get('kind') != 'VarDecl' else
                          'the open mode of `%s` is not a constant' % x.get('name'), tu.fn_loc(f))
            good = False
            continue
        bad = None
        if kind == 'ofstream' and mode is not None:
            APP, ATE, IN, TRUNC = 1, 2, 8, 32          # libstdc++ std::ios_base::openmode bits
            if mode & APP:
                bad = 'std::ios::app: new logs are appended to the old contents'
            elif (mode & IN) and not (mode & TRUNC):
                bad = 'in | out without trunc: the old contents are kept and overwritten from the start'
        elif kind == 'fopen' and not str(mode).startswith('w'):
            bad = 'fopen mode %r does not truncate the file' % mode
        elif kind == 'open':
            O_WRONLY, O_RDWR, O_CREAT, O_TRUNC, O_APPEND = 1, 2, 0o100, 0o1000, 0o2000
            if mode != 'creat' and (mode & (O_WRONLY | O_RDWR)) and not (mode & O_TRUNC):
                bad = 'open() flags 0%o lack O_TRUNC%s: bytes of an older, longer log remain after the new one' % (
                    mode, ' (and have O_APPEND)' if mode & O_APPEND else '')
        if bad:
            ctx.violation(R, inst, 'the log file is opened with %s; the file then holds the new log followed by the rest of the old '
                          'one and is no longer a JSON array' % bad, tu.loc(x) if tu.sd(x) else tu.fn_loc(f), key=key + 'log-not-truncated')
            good = False
    if good:
        ctx.ok(R, inst, '%d open(s) of the log file, all truncating' % len(opens), tu.fn_loc(f))


def check_value_fidelity(ctx, tu):
    """R-C20-6: the 64-bit counter value of an event reaches the log through an integer insertion; a conversion to a
    floating type on the way loses digits (ostream prints 6 significant digits)"""
    R = 'R-C20-6'
    ctx.describe(R, 'the uint64 counter value of an event is streamed as an integer: no conversion to float / double between '
                 'TraceEvent::counterValue and the stream insertion (helpers followed)')
    fs = [f for f in tu.fns(q=TR + 'TraceRecorder::saveLog', dep=False) if tu.cfg(f) is not None]
    if not fs:
        ctx.broken('%s: anchor TraceRecorder::saveLog not found' % R)
        return
    root = fs[0]
    keyb = '%s|%s|TraceRecorder::saveLog|' % (R, tu.fn_file(root))
    inst = 'TraceRecorder::saveLog counter values'
    results = []       # ('ok' | 'bad' | 'unknown', node, text)

    def follow(expr, fn, depth):
        """expr evaluates to the counter value (as an integer so far): what happens to it"""
        cur = expr
        hops = 0
        while hops < 12:
            hops += 1
            par = tu.par(cur)
            if par is None:
                results.append(('unknown', cur, 'use not understood'))
                return
            k = par.get('kind')
            if k in ('ImplicitCastExpr', 'CStyleCastExpr', 'CXXStaticCastExpr', 'CXXFunctionalCastExpr'):
                ck = par.get('castKind')
                ty = par.get('type', {}).get('qualType', '')
                if ck == 'IntegralToFloating' or re.search(r'\b(float|double)\b', ty):
                    results.append(('bad', par, 'converted to `%s`' % ty))
                    return
                cur = par
                continue
            if k in ('ParenExpr', 'MaterializeTemporaryExpr', 'ExprWithCleanups', 'ConstantExpr'):
                cur = par
                continue
            if k in ('CXXOperatorCallExpr', 'CXXMemberCallExpr') and tu.sd(par).get('q', '').split('::')[-1] == 'operator<<':
                results.append(('ok', par, 'inserted as `%s`' % tu.sd(tu.strip(cur)).get('ct', cur.get('type', {}).get('qualType', '?'))))
                return
            if k in ('CallExpr', 'CXXMemberCallExpr'):
                callee = tu.callee_fn(par)
                args = tu.call_parts(par)[2]
                idx = [i for i, a in enumerate(args) if a.get('id') == cur.get('id')]
                if callee is None or tu.body(callee) is None or not idx or idx[0] >= len(callee.get('params', [])) or depth > 3:
                    results.append(('unknown', par, 'passed to `%s`' % tu.show(par)))
                    return
                prm = callee['params'][idx[0]]
                if re.search(r'\b(float|double)\b', prm['ct']):
                    results.append(('bad', par, 'passed to parameter `%s` of type `%s` of %s' % (prm['name'], prm['ct'], callee['q'].replace(TR, ''))))
                    return
                uses = [x for x in tu.walk(tu.body(callee)) if x.get('kind') == 'DeclRefExpr' and
                        x.get('referencedDecl', {}).get('id') == prm['id']]
                if not uses:
                    results.append(('unknown', par, 'parameter `%s` is not used' % prm['name']))
                for u in uses:
                    follow(u, callee, depth + 1)
                return
            if k in ('BinaryOperator',) and par.get('opcode') in ('==', '!=', '<', '>', '<=', '>='):
                return      # a comparison does not print the value
            if k == 'VarDecl':
                if re.search(r'\b(float|double)\b', par.get('type', {}).get('qualType', '')):
                    results.append(('bad', par, 'stored in `%s %s`' % (par.get('type', {}).get('qualType'), par.get('name'))))
                    return
                uses = [x for x in tu.walk(tu.body(fn)) if x.get('kind') == 'DeclRefExpr' and
                        x.get('referencedDecl', {}).get('id') == par['id']]
                for u in uses:
                    follow(u, fn, depth + 1)
                return
            results.append(('unknown', par, 'used in `%s`' % tu.show(par)))
            return

    # saveLog and the tracing functions it reaches
    seen, work = set(), [root]
    while work:
        fn = work.pop()
        if fn['id'] in seen:
            continue
        seen.add(fn['id'])
        for x in tu.walk(tu.body(fn)):
            if x.get('kind') == 'MemberExpr' and x.get('name') == 'counterValue' and tu.kids(x) and \
                    'TraceEvent' in tu.sd(tu.strip(tu.kids(x)[0])).get('ct', tu.kids(x)[0].get('type', {}).get('qualType', '')):
                follow(x, fn, 0)
            if x.get('kind') in ('CallExpr', 'CXXMemberCallExpr'):
                cf = tu.callee_fn(x)
                if cf is not None and cf['q'].startswith(TR) and tu.body(cf) is not None and len(seen) < 40:
                    work.append(cf)
    bad = [r for r in results if r[0] == 'bad']
    unk = [r for r in results if r[0] == 'unknown']
    oks = [r for r in results if r[0] == 'ok']
    if bad:
        _, node, text = bad[0]
        ctx.violation(R, inst, 'the counter value (uint64_t TraceEvent::counterValue) is %s before it is written: the stream prints a '
                      'double with 6 significant digits, so values from 1000000 on are rounded and shown in exponent form; the '
                      'value in the log is not the value recorded' % text, tu.loc(node) if tu.sd(node) else tu.fn_loc(root),
                      key=keyb + 'counter-value-converted')
    elif unk or not oks:
        ctx.undecided(R, inst, 'how the counter value reaches the stream is not understood (%s)'
                      % (unk[0][2] if unk else 'no use of counterValue found'), tu.fn_loc(root))
    else:
        ctx.ok(R, inst, '%d insertion(s) of counterValue, all with an integer operand type' % len(oks), tu.fn_loc(root))


def _back_guarded(g, tu, bid, idx, adds, empties):
    """every path from entry to (bid, idx) passes a push_back or the false edge of events.empty()"""
    addpos = {(ab.id) for ab, ai, ax in adds}
    safe_edges = {(eb.id, eb.succ[1]) for eb in empties if eb.succ[1] is not None}
    # search for a path from entry to bid that avoids add blocks and safe edges
    seen = set()
    work = [g.entry]
    while work:
        b = work.pop()
        if b in seen:
            continue
        seen.add(b)
        if b == bid:
            # an add earlier in the same block protects
            if any(ab.id == bid and ai < idx for ab, ai, ax in adds):
                continue
            return False
        if b in addpos:
            continue
        for s in g.blocks[b].succ:
            if s is None or (b, s) in safe_edges:
                continue
            work.append(s)
    return True


def range_init(tu, n):
    decls = [x for x in n.get('inner', []) if isinstance(x, dict) and x.get('kind') == 'DeclStmt']
    if len(decls) < 4:
        return None, None, None
    rng = decls[0]['inner'][0]
    loopvar = decls[-1]['inner'][0]
    body = [x for x in n.get('inner', []) if isinstance(x, dict) and x.get('kind')][-1]
    ks = tu.kids(rng)
    return (ks[0] if ks else None), loopvar, body


UNIQUE_KEY_RX = re.compile(r'^std::(map|unordered_map|set|unordered_set)<')
MULTI_RX = re.compile(r'^std::(multimap|unordered_multimap|multiset|unordered_multiset|vector|deque|list)<')


def flows_into(tu, e, body, depth=0, seen=None):
    """names of members / variables whose values can reach expression e inside `body` (initialisers, assignments and
    stream insertions into the locals e mentions)"""
    seen = set() if seen is None else seen
    names = set()
    if e is None or depth > 5:
        return names
    for x in tu.walk(e):
        if x.get('kind') == 'MemberExpr':
            names.add(x.get('name'))
        if x.get('kind') == 'DeclRefExpr':
            did = x.get('referencedDecl', {}).get('id')
            names.add(('var', did))
            if did in seen:
                continue
            seen.add(did)
            vd = tu.node(did)
            if vd is not None and vd.get('kind') == 'VarDecl' and tu.kids(vd):
                names |= flows_into(tu, tu.kids(vd)[0], body, depth + 1, seen)
            for y in tu.walk(body):
                k = y.get('kind')
                if k in ('BinaryOperator', 'CompoundAssignOperator') and y.get('opcode') in ('=', '+=') and \
                        tu.ref_decl(tu.kids(y)[0]) == did:
                    names |= flows_into(tu, tu.kids(y)[1], body, depth + 1, seen)
                if k in ('CXXOperatorCallExpr', 'CXXMemberCallExpr'):
                    sd, obj, args = tu.call_parts(y)
                    nm = sd.get('q', '').split('::')[-1]
                    tgt = obj if obj is not None else (args[0] if args else None)
                    root = tgt
                    hops = 0
                    while root is not None and hops < 50:      # a << b << c : the stream is the leftmost operand
                        hops += 1
                        r0 = tu.strip(root)
                        if r0 is not None and r0.get('kind') in ('CXXOperatorCallExpr', 'CXXMemberCallExpr') and \
                                tu.sd(r0).get('q', '').split('::')[-1] == 'operator<<':
                            s2, o2, a2 = tu.call_parts(r0)
                            root = o2 if o2 is not None else (a2[0] if a2 else None)
                            continue
                        break
                    if nm in ('operator<<', 'operator=', 'operator+=', 'append', 'assign', 'push_back') and tu.ref_decl(root) == did:
                        for a in (args if obj is not None else args[1:]):
                            names |= flows_into(tu, a, body, depth + 1, seen)
    return names


def registry_transfers(tu, f):
    """local containers that receive the content of the registry threadTrace as a whole:
    decl id -> dict(how = 'copy' (the registry keeps its entries) | 'taken' (swap / move: the registry loses them), node, name)"""
    out = {}

    def is_reg(e):
        x = tu.strip(e, casts=True)
        return x is not None and tu.member_of_this(x) == 'threadTrace'

    def moved_reg(e):
        x = tu.strip(e, casts=True)
        hops = 0
        while x is not None and hops < 4 and x.get('kind') in ('CXXConstructExpr', 'MaterializeTemporaryExpr', 'CXXBindTemporaryExpr') \
                and len(tu.kids(x)) == 1:
            x = tu.strip(tu.kids(x)[0], casts=True)
            hops += 1
        return x is not None and x.get('kind') == 'CallExpr' and tu.sd(x).get('q') == 'std::move' and \
            tu.call_parts(x)[2] and is_reg(tu.call_parts(x)[2][0])

    def local(e):
        did = tu.ref_decl(tu.strip(e, casts=True)) if e is not None else None
        vd = tu.node(did) if did else None
        if vd is not None and vd.get('kind') == 'VarDecl' and not is_ref(vd):
            return vd
        return None

    def is_ref(vd):
        t = vd.get('type', {})
        return (t.get('desugaredQualType') or t.get('qualType', '')).rstrip().endswith('&')

    def note(vd, how, node):
        cur = out.get(vd['id'])
        if cur is None or how == 'taken':
            out[vd['id']] = {'how': how, 'node': node, 'name': vd.get('name')}

    for n in tu.walk(tu.body(f)):
        k = n.get('kind')
        if k == 'VarDecl' and tu.kids(n) and not is_ref(n) and \
                re.match(r'^std::(unordered_map|map)<std::thread::id,', re.sub(r'\bconst\s+', '', tu.sd(n['id']).get('ct', '') or
                                                                             n.get('type', {}).get('desugaredQualType', '') or
                                                                             n.get('type', {}).get('qualType', ''))):
            init = tu.strip(tu.kids(n)[0], casts=True)
            if init is not None and init.get('kind') == 'CXXConstructExpr' and len(tu.kids(init)) == 1:
                a0 = tu.kids(init)[0]
                if is_reg(a0):
                    note(n, 'copy', n)
                elif moved_reg(a0):
                    note(n, 'taken', n)
        if k == 'CXXOperatorCallExpr' and tu.sd(n).get('q', '').split('::')[-1] == 'operator=':
            sd, obj, args = tu.call_parts(n)
            vd = local(obj)
            if vd is not None and args:
                if is_reg(args[0]):
                    note(vd, 'copy', n)
                elif moved_reg(args[0]):
                    note(vd, 'taken', n)
        if k == 'CXXMemberCallExpr' and tu.sd(n).get('q', '').split('::')[-1] == 'swap':
            sd, obj, args = tu.call_parts(n)
            if args and is_reg(args[0]) and local(obj) is not None:
                note(local(obj), 'taken', n)
            elif args and is_reg(obj) and local(args[0]) is not None:
                note(local(args[0]), 'taken', n)
        if k == 'CallExpr' and tu.sd(n).get('q') == 'std::swap':
            args = tu.call_parts(n)[2]
            if len(args) == 2:
                for r_, l_ in ((args[0], args[1]), (args[1], args[0])):
                    if is_reg(r_) and local(l_) is not None:
                        note(local(l_), 'taken', n)
    return out


def derived_thread_containers(tu, f):
    """local containers filled inside a range-for over the registry threadTrace:
    decl id -> dict(type, unique (bool), key names, node, loopvar)"""
    out = {}
    for n in tu.walk(tu.body(f)):
        if n.get('kind') != 'CXXForRangeStmt':
            continue
        r, lv, body = range_init(tu, n)
        if r is None or tu.member_of_this(r) != 'threadTrace' or body is None or lv is None:
            continue
        for x in tu.walk(body):
            if x.get('kind') not in ('CXXOperatorCallExpr', 'CXXMemberCallExpr'):
                continue
            sd, obj, args = tu.call_parts(x)
            nm = sd.get('q', '').split('::')[-1]
            did = tu.ref_decl(obj) if obj is not None else None
            vd = tu.node(did) if did else None
            if vd is None or vd.get('kind') != 'VarDecl' or nm not in ('operator[]', 'insert', 'emplace', 'emplace_back', 'push_back',
                                                                       'try_emplace', 'insert_or_assign', 'emplace_hint'):
                continue
            ct = re.sub(r'\bconst\s+', '', tu.sd(tu.strip(obj)).get('ct', '')).replace('&', '').strip()
            if not (UNIQUE_KEY_RX.match(ct) or MULTI_RX.match(ct)):
                continue
            key = args[0] if args else None
            kn = flows_into(tu, key, body, 0, {lv['id']}) if key is not None else set()
            d = out.setdefault(did, {'type': ct, 'unique': bool(UNIQUE_KEY_RX.match(ct)), 'keys': set(), 'node': x,
                                     'loopvar': lv['id'], 'name': vd.get('name')})
            d['keys'] |= kn
    return out


def loop_kind(tu, range_expr, derived=None):
    ct = tu.sd(tu.strip(range_expr)).get('ct', '') if range_expr is not None else ''
    t = re.sub(r'\bconst\s+', '', ct).replace('&', '').strip()
    if range_expr is not None and tu.member_of_this(range_expr) == 'threadTrace':
        return 'threads'
    if derived and range_expr is not None and tu.ref_decl(range_expr) in derived:
        return 'threads'
    if re.match(r'^std::(unordered_map|map)<std::thread::id,', t):
        return 'threads'
    if re.match(r'^std::(list|vector|deque)<std::vector<rkcommon::tracing::TraceEvent\b', t):
        return 'chunks'
    if re.match(r'^std::vector<rkcommon::tracing::TraceEvent\b', t):
        return 'events'
    return None


# the container of still-open begin events: a stack / vector / deque / list of pointers to TraceEvent
BEGIN_ARRAY_RX = re.compile(r'TraceEvent\s*(const\s*)?\*\s*(const\s*)?\[\d+\]')
BEGIN_STACK_RX = re.compile(r'std::(stack|vector|deque|list)<\s*(const\s+)?(rkcommon::tracing::)?TraceEvent(\s+const)?\s*\*')


def check_iteration(ctx, tu, f, R):
    """saveLog, with the tracing helpers it calls expanded at their call sites: thread loop > chunk loop > event loop,
    each ranging over the element of the enclosing one; the stack of open begin events outlives the chunk loop"""
    inst = 'TraceRecorder::saveLog iteration'
    keyb = '%s|%s|TraceRecorder::saveLog|' % (R, tu.fn_file(f))
    ev_loops, stacks, other_loops, notes = [], [], [], []
    arrays = []

    def refs(e, env, depth=0):
        """decl ids an expression depends on, looking through helper parameters and local aliases"""
        out = set()
        if e is None or depth > 6:
            return out
        for x in tu.walk(e):
            if x.get('kind') == 'DeclRefExpr':
                did = x.get('referencedDecl', {}).get('id')
                if did in env:
                    arg, env2 = env[did]
                    out |= refs(arg, env2, depth + 1)
                    continue
                out.add(did)
                vd = tu.node(did)
                if vd is not None and vd.get('kind') == 'VarDecl' and tu.kids(vd) and not vd.get('name', '').startswith('__'):
                    out |= refs(tu.kids(vd)[0], env, depth + 1)
        return out

    def walk(n, lctx, fn, env, depth):
        k = n.get('kind')
        if k == 'CXXForRangeStmt':
            r, lv, body = range_init(tu, n)
            kind = loop_kind(tu, r, derived if fn['id'] == f['id'] else None)
            entry = {'kind': kind, 'var': lv['id'] if lv else None, 'node': n, 'fn': fn, 'range': r, 'env': env, 'body': body}
            if kind == 'events':
                ev_loops.append((entry, list(lctx)))
            # the range / iterator declarations are not part of the body; a helper called to produce the range runs once,
            # before the loop, in the context the loop statement is in
            if r is not None:
                walk(r, lctx, fn, env, depth)
            if body is not None:
                walk(body, lctx + [entry], fn, env, depth)
            return
        if k in ('ForStmt', 'WhileStmt', 'DoStmt'):
            other_loops.append((n, list(lctx)))
            entry = {'kind': 'other', 'var': None, 'node': n, 'fn': fn}
            for c in n.get('inner', ()):
                if isinstance(c, dict) and c.get('kind'):
                    walk(c, lctx + [entry], fn, env, depth)
            return
        if k == 'LambdaExpr':
            notes.append('a lambda inside saveLog is not followed')
            return
        if k == 'VarDecl' and (BEGIN_STACK_RX.search(n.get('type', {}).get('qualType', '')) or
                               BEGIN_STACK_RX.search(n.get('type', {}).get('desugaredQualType', ''))):
            stacks.append((n, list(lctx), fn))
        elif k == 'VarDecl' and BEGIN_ARRAY_RX.search(n.get('type', {}).get('desugaredQualType', '') or
                                                      n.get('type', {}).get('qualType', '')):
            # a fixed array of event pointers used as a stack, with an integer counting the open begin events
            stacks.append((n, list(lctx), fn))
            arrays.append((n, fn))
        elif k == 'VarDecl':
            # an object of a tracing class that keeps the begin stack as a member: the stack lives as long as the object
            vt_ = n.get('type', {}).get('qualType', '')
            if '&' not in vt_ and '*' not in vt_:
                ct_ = re.sub(r'^(const|volatile)\s+', '', (tu.sd(n['id']) or {}).get('ct', '') or
                             n.get('type', {}).get('desugaredQualType', '') or vt_)
                rec_ = tu.records_by_type.get(ct_)
                if rec_ is not None and rec_.get('q', '').startswith(TR) and \
                        any(BEGIN_STACK_RX.search(fd.get('ct', '')) for fd in rec_.get('fields', ())):
                    stacks.append((n, list(lctx), fn))
        if k in ('CallExpr', 'CXXMemberCallExpr'):
            callee = tu.callee_fn(n)
            if callee is not None and callee['q'].startswith(TR) and tu.body(callee) is not None and depth < 4 and \
                    callee['id'] != fn['id']:
                args = tu.call_parts(n)[2]
                env2 = dict(env)
                for p_, a in zip(callee.get('params', []), args):
                    env2[p_['id']] = (a, env)
                walk(tu.body(callee), lctx, callee, env2, depth + 1)
        for c in n.get('inner', ()):
            if isinstance(c, dict) and c.get('kind'):
                walk(c, lctx, fn, env, depth)

    derived = derived_thread_containers(tu, f)
    transfers = registry_transfers(tu, f)
    walk(tu.body(f), [], f, {}, 0)
    good = True
    # ---- a begin stack kept in a fixed array: its counter, and the capacity test in front of every push
    counters = set()
    for avd, afn in arrays:
        m_ = re.search(r'\[(\d+)\]', avd.get('type', {}).get('desugaredQualType', '') or avd.get('type', {}).get('qualType', ''))
        cap = int(m_.group(1)) if m_ else None
        for x in tu.walk(tu.body(afn)):
            if x.get('kind') != 'ArraySubscriptExpr' or tu.ref_decl(tu.kids(x)[0]) != avd['id']:
                continue
            idx_vars = {y.get('referencedDecl', {}).get('id') for y in tu.walk(tu.kids(x)[1]) if y.get('kind') == 'DeclRefExpr'
                        and y.get('referencedDecl', {}).get('kind') == 'VarDecl'}
            counters |= idx_vars
            par = tu.par(x)
            hops = 0
            while par is not None and hops < 4 and par.get('kind') in ('ParenExpr', 'ImplicitCastExpr'):
                par = tu.par(par)
                hops += 1
            is_store = par is not None and par.get('kind') == 'BinaryOperator' and par.get('opcode') == '=' and \
                tu.strip(tu.kids(par)[0]) is not None and tu.strip(tu.kids(par)[0]).get('id') == x.get('id')
            if not is_store:
                continue
            # the push: is it under a test that relates the counter to a bound?
            guarded = False
            p_ = tu.par(par)
            hops = 0
            while p_ is not None and hops < 80:
                hops += 1
                if p_.get('kind') == 'IfStmt':
                    pk = [c for c in p_.get('inner', ()) if isinstance(c, dict) and c.get('kind')]
                    for y in (tu.walk(pk[0]) if pk else ()):
                        if y.get('kind') == 'BinaryOperator' and y.get('opcode') in ('<', '<=', '>', '>=', '!=', '==') and \
                                any(tu.ref_decl(z) in idx_vars for z in tu.kids(y)) and \
                                not any(tu.sd(tu.strip(z)).get('cv') == '0' for z in tu.kids(y)):
                            guarded = True
                p_ = tu.par(p_)
            if guarded:
                notes.append('push into the fixed begin array under a capacity test')
                continue
            ctx.violation(R, inst, '`%s` stores an open begin event into the fixed array `%s` of %s entries without testing the count: '
                          'the nesting depth of begin/end events is not bounded by anything, so on a thread with more than %s open '
                          'begin events the store lands beyond the array (stack corruption / crash while saving); a container that '
                          'grows, or a capacity test in front of the store, is required'
                          % (tu.show(par), avd.get('name'), cap, cap), tu.loc(par), key=keyb + 'begin-stack-fixed-capacity')
            good = False
    if not ev_loops:
        ctx.undecided(R, inst, 'no range-for over the events of a chunk was found in saveLog or the helpers it calls', tu.fn_loc(f))
        return
    for entry, lctx in ev_loops:
        kinds = [l['kind'] for l in lctx]
        loc = tu.loc(entry['node'])
        if 'threads' not in kinds or 'chunks' not in kinds or kinds.index('threads') > kinds.index('chunks'):
            ctx.undecided(R, inst, 'the event loop is not nested in a thread loop and a chunk loop (enclosing loops: %s)'
                          % (kinds or 'none'), loc)
            good = False
            continue
        th = [l for l in lctx if l['kind'] == 'threads'][-1]
        ch = [l for l in lctx if l['kind'] == 'chunks'][-1]
        dv = derived.get(tu.ref_decl(th['range'])) if th['range'] is not None else None
        if dv is not None:
            # the threads are first collected into a local container: it must hold one entry per registry entry
            if dv['unique'] and 'threadName' in dv['keys']:
                ctx.violation(R, inst, 'the threads are collected into `%s` (%s), whose key is computed from the user-settable '
                              'thread name: threads that share a name occupy one slot, only one of them is written and all '
                              'events of the others are missing from the log' % (dv['name'], dv['type'].split('<')[0]),
                              tu.loc(dv['node']), key=keyb + 'threads-keyed-by-name')
                good = False
            elif dv['unique'] and not (dv['keys'] - {'first'} <= {('var', dv['loopvar'])} and 'first' in dv['keys']):
                ctx.undecided(R, inst, 'the threads are collected into `%s` with a key that is not recognised as the thread id '
                              '(depends on %s)' % (dv['name'], sorted(str(k) for k in dv['keys'])), tu.loc(dv['node']))
                good = False
        elif th['range'] is not None and tu.ref_decl(th['range']) in transfers:
            # the registry as a whole was copied / taken into this local: it holds every entry the registry had (whether the
            # registry may lose them is the registry clause)
            notes.append('threads from the snapshot `%s`' % transfers[tu.ref_decl(th['range'])]['name'])
        elif th['range'] is None or tu.member_of_this(th['range']) != 'threadTrace':
            ctx.violation(R, inst, 'the thread loop ranges over `%s`; required the registry threadTrace' % tu.show(th['range']),
                          tu.loc(th['node']), key=keyb + 'outer-range')
            good = False
        chr_ = tu.strip(ch['range'])
        if th['var'] not in refs(ch['range'], ch['env']) or chr_ is None or chr_.get('kind') != 'MemberExpr' or \
                chr_.get('name') != 'events':
            # a helper may receive the list itself: then the argument at the call site is what must name the thread
            if th['var'] not in refs(ch['range'], ch['env']):
                ctx.violation(R, inst, 'the chunk loop ranges over `%s`, which is not the chunk list of the current thread'
                              % tu.show(ch['range']), tu.loc(ch['node']), key=keyb + 'middle-range')
                good = False
        if ch['var'] not in refs(entry['range'], entry['env']) or \
                tu.strip(entry['range']).get('kind') in ('CXXMemberCallExpr', 'CXXOperatorCallExpr'):
            ctx.violation(R, inst, 'the event loop ranges over `%s`; required the current chunk' % tu.show(entry['range']), loc,
                          key=keyb + 'inner-range')
            good = False

        # skips inside the event loop
        def skips(n, conds):
            k = n.get('kind')
            if k in ('BreakStmt', 'ContinueStmt', 'ReturnStmt', 'GotoStmt'):
                yield n, list(conds)
                return
            if k in ('ForStmt', 'WhileStmt', 'DoStmt', 'CXXForRangeStmt', 'SwitchStmt', 'LambdaExpr'):
                return
            if k == 'IfStmt':
                ks = [c for c in n.get('inner', ()) if isinstance(c, dict) and c.get('kind')]
                if len(ks) >= 2:
                    yield from skips(ks[1], conds + [(ks[0], True)])
                if len(ks) >= 3:
                    yield from skips(ks[2], conds + [(ks[0], False)])      # else branch: the condition is false here
                return
            for c in n.get('inner', ()):
                if isinstance(c, dict) and c.get('kind'):
                    yield from skips(c, conds)

        def emits(st_):
            """does this statement unconditionally write to the log stream (directly or through a helper)"""
            x = tu.strip(st_)
            if x is None or x.get('kind') not in ('CXXOperatorCallExpr', 'CallExpr', 'CXXMemberCallExpr'):
                return False
            for y in tu.walk(x):
                if y.get('kind') == 'DeclRefExpr' and re.search(r'basic_o(f)?stream|basic_ostringstream',
                                                                tu.sd(y).get('ct', '') or y.get('type', {}).get('qualType', '')):
                    if y.get('referencedDecl', {}).get('name') not in ('cerr', 'cout', 'clog'):
                        return True
            return False

        body_stmts = tu.kids(entry['body']) if entry['body'].get('kind') == 'CompoundStmt' else [entry['body']]
        found_skips = []
        emitted = False
        for st_ in body_stmts:
            for sk_, cs_ in skips(st_, []):
                # once the event is in the log, going on to the next event (continue) drops nothing; leaving the loop
                # (break / return / goto) still abandons the events that follow
                if not emitted or sk_.get('kind') != 'ContinueStmt':
                    found_skips.append((sk_, cs_))
            if emits(st_):
                emitted = True
        def event_only(c, evids=(), depth=0):
            """does the condition depend on nothing but the event being visited (its type, fields, flags derived from it)"""
            if depth > 4:
                return False
            for x in tu.walk(c):
                k_ = x.get('kind')
                if k_ == 'CXXThisExpr':
                    return False              # state of the object the helper belongs to
                if k_ in ('CallExpr', 'CXXMemberCallExpr', 'CXXOperatorCallExpr') and \
                        not tu.sd(x).get('q', '').split('::')[-1].startswith('operator'):
                    return False
                if k_ == 'DeclRefExpr':
                    rd = x.get('referencedDecl', {})
                    if rd.get('kind') in ('EnumConstantDecl', 'FunctionDecl', 'CXXMethodDecl'):
                        continue
                    if rd.get('id') == entry['var'] or rd.get('id') in evids:
                        continue
                    vd_ = tu.node(rd.get('id'))
                    if vd_ is not None and vd_.get('kind') == 'VarDecl' and tu.kids(vd_) and \
                            event_only(tu.kids(vd_)[0], evids, depth + 1):
                        continue
                    return False
            return True

        # a skip taken on the boolean result of a tracing helper that receives the event is taken exactly on the paths
        # of the helper that return that value: the conditions of those paths replace the call
        def bool_call(c):
            x = tu.strip(c, casts=True)
            hops = 0
            while x is not None and hops < 4:
                hops += 1
                if x.get('kind') in ('ExprWithCleanups', 'ParenExpr'):
                    x = tu.strip(tu.kids(x)[0], casts=True)
                    continue
                break
            neg = False
            while x is not None and x.get('kind') == 'UnaryOperator' and x.get('opcode') == '!':
                neg = not neg
                x = tu.strip(tu.kids(x)[0], casts=True)
            if x is not None and x.get('kind') == 'DeclRefExpr':
                vd_ = tu.node(x.get('referencedDecl', {}).get('id'))
                if vd_ is not None and vd_.get('kind') == 'VarDecl' and tu.kids(vd_) and \
                        'const' in vd_.get('type', {}).get('qualType', ''):
                    x = tu.strip(tu.kids(vd_)[0], casts=True)
            if x is None or x.get('kind') not in ('CallExpr', 'CXXMemberCallExpr'):
                return None
            callee = tu.callee_fn(x)
            if callee is None or not callee['q'].startswith(TR) or tu.body(callee) is None or \
                    bare_ret(callee) != 'bool':
                return None
            return x, callee, neg

        def bare_ret(fn):
            return (fn.get('ret') or fn.get('fty', '').split('(')[0]).strip()

        def returns(n, conds):
            k = n.get('kind')
            if k == 'ReturnStmt':
                yield n, list(conds)
                return
            if k == 'LambdaExpr':
                return
            if k == 'IfStmt':
                ks = [c for c in n.get('inner', ()) if isinstance(c, dict) and c.get('kind')]
                if len(ks) >= 2:
                    yield from returns(ks[1], conds + [(ks[0], True)])
                if len(ks) >= 3:
                    yield from returns(ks[2], conds + [(ks[0], False)])
                return
            if k in ('SwitchStmt', 'WhileStmt'):
                ks = [c for c in n.get('inner', ()) if isinstance(c, dict) and c.get('kind')]
                if len(ks) >= 2:
                    # inside a switch / loop body the selector has been evaluated; which value it had is not tracked
                    yield from returns(ks[-1], conds + [(ks[0], None)])
                return
            for c in n.get('inner', ()):
                if isinstance(c, dict) and c.get('kind'):
                    yield from returns(c, conds)

        def expand(sk, conds, evids, via=(), depth=0):
            for i, (c, pol) in enumerate(conds):
                bc = bool_call(c) if pol is not None else None
                if bc is None or depth > 3:
                    continue
                call, callee, neg = bc
                want = (pol != neg)           # value of the call on the way to the skip
                args = tu.call_parts(call)[2]
                evids2 = set(evids)
                for p_, a in zip(callee.get('params', []), args):
                    if tu.ref_decl(a) in evids:
                        evids2.add(p_['id'])
                alts = []
                for r, rconds in returns(tu.body(callee), []):
                    rv = tu.strip(tu.kids(r)[0], casts=True) if tu.kids(r) else None
                    if rv is not None and rv.get('kind') == 'CXXBoolLiteralExpr':
                        if bool(rv.get('value')) != want:
                            continue
                        alts.append((r, rconds))
                    else:
                        return [(sk, conds, evids, via)]        # value not constant on some path: keep the call as it is
                out = []
                for r, rconds in alts:
                    out += expand(sk, conds[:i] + rconds + conds[i + 1:], evids2,
                                  via + ((callee['q'].split('::')[-1], want, r),), depth + 1)
                return out
            return [(sk, conds, evids, via)]

        expanded = []
        for sk, conds in found_skips:
            expanded += expand(sk, conds, {entry['var']})

        for sk, conds, evids, via in expanded:
            stack_empty = False
            for c, pol in conds:
                if not pol:
                    continue
                for x in tu.walk(c):
                    if x.get('kind') == 'CXXMemberCallExpr' and tu.sd(x).get('q', '').endswith('::empty') and \
                            tu.call_parts(x)[1] is not None and \
                            BEGIN_STACK_RX.search(tu.sd(tu.strip(tu.call_parts(x)[1])).get('ct', '')):
                        stack_empty = True
                    # array + counter form of the begin stack: `count == 0`
                    if x.get('kind') == 'BinaryOperator' and x.get('opcode') in ('==', '<=') and counters and \
                            tu.ref_decl(tu.kids(x)[0]) in counters and tu.sd(tu.strip(tu.kids(x)[1])).get('cv') == '0':
                        stack_empty = True
            if stack_empty:
                continue          # the documented error exit: an end event without an open begin event
            text = ' && '.join(('%s' if pol else '!(%s)' if pol is False else 'on `%s`') % tu.show(c)
                               for c, pol in conds) or 'no condition'
            how = ''.join('when %s() returns %s (%s), which it does ' % (q_, 'true' if w_ else 'false', tu.loc(r_))
                          for q_, w_, r_ in via)
            if all(event_only(c, evids) for c, pol in conds):
                ctx.violation(R, inst, '`%s` leaves the event loop body %sunder `%s`: recorded events (this one, or for a break the '
                              'rest of the chunk) are dropped from the log' % (sk.get('kind'), how, text),
                              tu.loc(via[-1][2]) if via else tu.loc(sk), key=keyb + 'event-skipped')
            else:
                ctx.undecided(R, inst, '`%s` leaves the event loop body %sunder `%s`, a condition that is not understood'
                              % (sk.get('kind'), how, text), tu.loc(sk))
            good = False
    # the stack of open begin events must survive the boundary between two storage chunks of a thread
    for vd, lctx, fn in stacks:
        kinds = [l['kind'] for l in lctx]
        if 'chunks' in kinds or 'events' in kinds:
            where = 'in %s, which is called once per chunk' % fn['q'].replace(TR, '') if fn['id'] != f['id'] else 'inside the chunk loop'
            ctx.violation(R, inst, 'the stack of open begin events `%s` is created %s: it starts empty at every storage chunk '
                          '(every %s events), so an end event whose begin lies in the previous chunk is reported as unmatched, '
                          'the rest of that chunk is dropped and no duration is computed' % (vd.get('name'), where, '8192'),
                          tu.loc(vd['id']) if tu.sd(vd['id']) else tu.fn_loc(fn), key=keyb + 'begin-stack-per-chunk')
            good = False
    if not stacks:
        notes.append('no begin stack found')
    if not check_locked(ctx, tu, f, R, quiet=True):
        good = False
    if good:
        ctx.ok(R, inst, 'for thread in threadTrace / for chunk in thread.events / for event in chunk (helpers expanded), under '
               'lock_guard(threadTraceMutex); begin stack declared outside the chunk loop; the only early exit is the '
               'unmatched-end error', tu.fn_loc(f))


def check_locked(ctx, tu, f, R, quiet=False):
    """every access to the registry member threadTrace is dominated by a lock of threadTraceMutex that lives to the end"""
    inst = short_q(f['q']) + ' locking'
    keyb = '%s|%s|%s|' % (R, tu.fn_file(f), short_q(f['q']))
    g = tu.cfg(f)
    locks = []
    for b, i, n in g.stmts():
        if n.get('kind') == 'DeclStmt':
            for vd in n.get('inner', ()):
                if isinstance(vd, dict) and vd.get('kind') == 'VarDecl' and \
                        re.search(r'std::(lock_guard|unique_lock|scoped_lock)<', vd.get('type', {}).get('qualType', '')):
                    init = tu.kids(vd)
                    mtx = [x for x in tu.walk(init[0]) if x.get('kind') == 'MemberExpr' and x.get('name') == 'threadTraceMutex'] if init else []
                    if mtx:
                        locks.append((b.id, i, vd))
    acc = [(b.id, i, n) for b, i, n in g.stmts() if n.get('kind') == 'MemberExpr' and tu.member_of_this(n) == 'threadTrace']
    if not acc:
        return True
    bad = None
    if not locks:
        bad = 'the registry threadTrace is accessed without locking threadTraceMutex'
    else:
        lb, li, lvd = locks[0]
        if not all(g.dominates((lb, li), (b, i)) for b, i, n in acc):
            bad = 'an access to threadTrace is not dominated by the lock of threadTraceMutex'
        # the guard must be alive at every access: each one lies in the block the guard is declared in
        par = tu.par(tu.par(lvd))
        if bad is None and (par is None or par.get('id') != tu.body(f).get('id')):
            def inside(x_):
                hops = 0
                while x_ is not None and hops < 200:
                    if par is not None and x_.get('id') == par.get('id'):
                        return True
                    x_ = tu.par(x_)
                    hops += 1
                return False
            # names bound to the registry or to something inside it (references, iterators) extend the access
            aliases = set()
            for y in tu.walk(tu.body(f)):
                if y.get('kind') == 'VarDecl' and tu.kids(y) and \
                        re.search(r'[&*]|iterator', y.get('type', {}).get('qualType', '')) and \
                        any(z.get('kind') == 'MemberExpr' and tu.member_of_this(z) == 'threadTrace' for z in tu.walk(tu.kids(y)[0])):
                    aliases.add(y['id'])
            uses = [n for b, i, n in acc] + [y for y in tu.walk(tu.body(f)) if y.get('kind') == 'DeclRefExpr' and
                                             y.get('referencedDecl', {}).get('id') in aliases]
            if par is None or not all(inside(n_) for n_ in uses):
                bad = 'the lock guard is scoped to an inner block and is released while the registry threadTrace is still in use'
        for b, i, n in g.stmts():
            if n.get('kind') == 'CXXMemberCallExpr' and tu.sd(n).get('q', '').endswith('::unlock'):
                bad = bad or 'the lock is released explicitly'
    if bad:
        ctx.violation(R, inst, bad, tu.fn_loc(f), key=keyb + 'lock')
        return False
    if not quiet:
        ctx.ok(R, inst, 'lock of threadTraceMutex dominates every registry access and lives to the end of the function', tu.fn_loc(f))
    return True


def short_q(q):
    return q.replace(TR, '')


def run(ctx):
    ctx.assume('the pixel pointer handed to a wrapper addresses sizeX*sizeY pixels; sizeX, sizeY >= 0, sizeX*sizeY and '
               'N_COMP*sizeX*sizeof fit in int; fopen/fprintf/fwrite/std::ofstream behave as documented')
    ctx.assume('names, categories and thread names contain no characters that need JSON escaping; numbers print as finite '
               'decimal numbers (begin and end of a pair have different steady_clock readings); recorded histories have matching begin/end pairs (the unmatched-end error path may drop events)')
    tu, tt = ctx.front.parse_many([dict(unit='drivers/c20_writers.cpp', config='TBB'),
                                   dict(unit='rkcommon/tracing/Tracing.cpp', config='TBB')])
    check_images(ctx, tu)
    check_savelog(ctx, tt)
    check_recording(ctx, tt)
    check_value_fidelity(ctx, tt)
    check_cached_names(ctx, tt)
    check_event_addresses(ctx, tt)
    check_utilization_divisor(ctx, tt)
    check_lock_reentry(ctx, tt)
    check_log_file_open(ctx, tt)
    check_shared_state(ctx, tt)
    if ctx.tier == 'thorough':
        tu2, tt2 = ctx.front.parse_many([dict(unit='drivers/c20_writers.cpp', config='DEBUG', std='gnu++17', simd=False),
                                         dict(unit='rkcommon/tracing/Tracing.cpp', config='DEBUG', std='gnu++17')])
        check_images(ctx, tu2)
        check_savelog(ctx, tt2)
        check_recording(ctx, tt2)
        check_value_fidelity(ctx, tt2)
        check_cached_names(ctx, tt2)
        check_event_addresses(ctx, tt2)
        check_utilization_divisor(ctx, tt2)
        check_lock_reentry(ctx, tt2)
        check_log_file_open(ctx, tt2)
        check_shared_state(ctx, tt2)
    from rkstatic import selftest
    selftest.run(ctx)
