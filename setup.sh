#!/bin/sh
# Offline setup: builds the clang plugin from /verif/plugin (about 25 s). Every check also
# rebuilds it on demand if it is missing or older than its source.
set -e
cd "$(dirname "$0")"
mkdir -p build evidence
exec python3-vt -c "import sys; sys.path.insert(0,'.'); from rkstatic.front import ensure_plugin; ensure_plugin(); print('rkfacts plugin ready')"
