#!/bin/bash
# usage: apply_fix.sh fixes/<name>.diff  -- applies to /repo, builds, runs ctest, commits as "fix: ..."; prints the commit hash
set -e
P=$(realpath $1)
SUBJ=$(grep -m1 '^# fix:' $P | sed 's/^# fix: *//')
BODY=$(grep '^# failed:' $P | sed 's/^# failed: */Failing case: /' | fold -s -w 90)
cd /repo
git apply --check $P
git apply $P
cmake --build _build >/tmp/applyfix-build.log 2>&1 || { echo "BUILD FAILED"; tail -20 /tmp/applyfix-build.log; git checkout -- .; exit 1; }
R=$(ctest --test-dir _build -j8 2>&1 | grep -E "tests passed|tests failed")
case "$R" in *"100% tests passed"*) ;; *) echo "TESTS FAILED: $R"; git checkout -- .; exit 1;; esac
git commit -qam "fix: $SUBJ

$BODY"
echo "$(git rev-parse --short HEAD) $(basename $P) :: $R"
