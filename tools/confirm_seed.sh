#!/bin/bash
# usage: confirm_seed.sh <seed-out-dir> <Cxx-k> <demo build mode: hdr|so|so+src:<relsrc>> [demo args...]
# Confirms, in a scratch worktree of /repo HEAD, that (1) library+tests build and pass with the patch,
# (2) the demo passes on the clean tree and fails on the patched tree. Prints a summary; removes the worktree.
set -u
OUT=$1; ID=$2; MODE=$3; shift 3
WT=/tmp/confirm-$ID
git -C /repo worktree remove --force $WT >/dev/null 2>&1
git -C /repo worktree add -q $WT HEAD || exit 2
cd $WT
TS=TBB; [ "$MODE" = omp ] && TS=OpenMP; [ "$MODE" = int ] && TS=Internal
build() { cmake -G Ninja -S $WT -B $WT/_build -DBUILD_TESTING=ON -DCMAKE_BUILD_TYPE=RelWithDebInfo -DRKCOMMON_TASKING_SYSTEM=$TS >/dev/null 2>&1 && cmake --build $WT/_build >/dev/null 2>&1; }
demo() {  # $1 = output binary
  case $MODE in
    hdr) clang++ -std=c++11 -g -O1 -fsanitize=address,undefined -fno-sanitize-recover=undefined -I$WT -I$WT/_build $OUT/$ID/demo.cpp -o $1 2>/dev/null;;
    hdra) clang++ -std=c++11 -g -O1 -fsanitize=address -I$WT -I$WT/_build $OUT/$ID/demo.cpp -o $1 2>/dev/null;;
    hdrg) g++ -std=c++11 -O2 -pthread -I$WT -I$WT/_build $OUT/$ID/demo.cpp -o $1 2>/dev/null;;
    sh) true;;
    int) g++ -std=c++11 -O1 -g -pthread -DRKCOMMON_TASKING_INTERNAL -I$WT -I$WT/_build $OUT/$ID/demo.cpp $WT/_build/librkcommon.so -Wl,-rpath,$WT/_build -o $1 2>/dev/null;;
    dl) g++ -std=c++11 -O1 -g -pthread -rdynamic -I$WT -I$WT/_build $OUT/$ID/demo.cpp -o $1 $WT/_build/librkcommon.so -Wl,-rpath,$WT/_build -ldl 2>/dev/null;;
    so) g++ -std=c++11 -g -I$WT -I$WT/_build $OUT/$ID/demo.cpp $WT/_build/librkcommon.so -Wl,-rpath,$WT/_build -o $1 2>/dev/null;;
    so+src:*) clang++ -std=c++11 -g -O1 -fsanitize=address,undefined -fno-sanitize-recover=all -I$WT -I$WT/_build $OUT/$ID/demo.cpp $WT/${MODE#so+src:} $WT/_build/librkcommon.so -Wl,-rpath,$WT/_build -o $1 2>/dev/null;;
    gso) g++ -std=c++11 -O1 -g -pthread -I$WT -I$WT/_build $OUT/$ID/demo.cpp $WT/_build/librkcommon.so -Wl,-rpath,$WT/_build -o $1 2>/dev/null;;
    asanso) clang++ -std=c++11 -g -O1 -fsanitize=address,undefined -fno-sanitize-recover=undefined -I$WT -I$WT/_build $OUT/$ID/demo.cpp $WT/_build/librkcommon.so -Wl,-rpath,$WT/_build -o $1 2>/dev/null;;
    tbb) g++ -std=c++11 -O1 -g -pthread -DRKCOMMON_TASKING_TBB -I$WT -I$WT/_build $OUT/$ID/demo.cpp $WT/_build/librkcommon.so -Wl,-rpath,$WT/_build -ltbb -o $1 2>/dev/null;;
    omp) g++ -std=c++11 -O1 -g -pthread -fopenmp -DRKCOMMON_TASKING_OMP -I$WT -I$WT/_build $OUT/$ID/demo.cpp $WT/_build/librkcommon.so -Wl,-rpath,$WT/_build -o $1 2>/dev/null;;
    gsond) g++ -std=c++11 -O1 -g -pthread -DNDEBUG -I$WT -I$WT/_build $OUT/$ID/demo.cpp $WT/_build/librkcommon.so -Wl,-rpath,$WT/_build -o $1 2>/dev/null;;
    tsanomp) clang++ -std=c++11 -O1 -g -fsanitize=thread -DRKCOMMON_TASKING_OMP -I$WT -I$WT/_build $OUT/$ID/demo.cpp -lpthread -o $1 2>/dev/null;;
    tsan) clang++ -std=c++11 -g -O0 -fsanitize=thread -I$WT -I$WT/_build $OUT/$ID/demo.cpp $WT/_build/librkcommon.so -Wl,-rpath,$WT/_build -lpthread -o $1 2>/dev/null;;
  esac
}
build || { echo "$ID: clean build failed"; exit 2; }
demo $WT/demo_clean || { echo "$ID: demo does not build on clean tree"; }
if [ "$MODE" = sh ]; then ( timeout 900 sh $OUT/$ID/demo.sh $WT >/dev/null 2>&1 ); CLEAN=$?; else ( cd $WT && timeout 300 ./demo_clean "$@" >/dev/null 2>&1 ); CLEAN=$?; fi
git apply $OUT/$ID/patch.diff || { echo "$ID: patch does not apply"; exit 2; }
build; B=$?
T=$(ctest --test-dir $WT/_build -j8 2>&1 | grep -E "tests passed|tests failed" | head -1)
demo $WT/demo_patched
if [ "$MODE" = sh ]; then ( timeout 900 sh $OUT/$ID/demo.sh $WT >/dev/null 2>&1 ); PATCHED=$?; else ( cd $WT && timeout 300 ./demo_patched "$@" >/dev/null 2>&1 ); PATCHED=$?; fi
echo "$ID: build_with_patch=$B ctest='$T' demo_clean_exit=$CLEAN demo_patched_exit=$PATCHED"
cd /; git -C /repo worktree remove --force $WT
