#!/usr/bin/env python3-vt
"""debug: ./tools/dumpcfg.py <unit> <config> <qname-regex> [--root DIR]"""
import sys, os, re
sys.path.insert(0, os.path.dirname(os.path.dirname(os.path.abspath(__file__))))
from rkstatic.front import Front
root = '/repo'
args = sys.argv[1:]
if '--root' in args:
    i = args.index('--root'); root = args[i+1]; del args[i:i+2]
unit, config, rx = args[:3]
fr = Front(root)
tu = fr.parse(unit, config)
for f in tu.fns(rx=rx):
    print('=====', f['q'], f['fty'], tu.fn_loc(f), 'dep' if f['dep'] else '', f.get('targs'))
    g = tu.cfg(f)
    if not g:
        continue
    for bid in sorted(g.blocks, reverse=True):
        b = g.blocks[bid]
        tag = ' ENTRY' if bid == g.entry else ' EXIT' if bid == g.exit else ''
        print('  B%d%s -> %s%s' % (bid, tag, b.succ, ' NORET' if b.noret else ''))
        for e in b.el:
            if e[0] == 'S':
                n = tu.node(e[1])
                print('     S %-22s %s   @%s' % (n.get('kind') if n else '?', tu.show(n) if n else e[1], tu.line(e[1])))
            else:
                print('    ', e)
        if b.term:
            n = tu.node(b.term)
            print('     T %s cond=%s' % (n.get('kind') if n else b.term, tu.show(tu.node(b.cond)) if b.cond else None))
