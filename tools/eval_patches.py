#!/usr/bin/env python3-vt
"""usage: eval_patches.py seeded|<dir-glob>   -- runs the owning check on a scratch copy with each patch applied; prints verdicts"""
import glob, json, os, re, sys
sys.path.insert(0, os.path.dirname(os.path.dirname(os.path.abspath(__file__))))
from concurrent.futures import ThreadPoolExecutor
from rkstatic.selftest import run_one
arg = sys.argv[1]
if arg == 'seeded':
    items = [(os.path.basename(os.path.dirname(p)), p, True) for p in sorted(glob.glob('/verif/seeded/*/patch.diff'))]
    rounds = [int(a.split('=')[1]) for a in sys.argv[2:] if a.startswith('--round=')]      # only the changes of these rounds
    if rounds:
        items = [it for it in items if json.load(open('/verif/seeded/%s/meta.json' % it[0])).get('round', 1) in rounds]
else:
    items = [(os.path.basename(os.path.dirname(p)), p, False) for p in sorted(glob.glob(arg))]
def one(it):
    name, patch, fire = it
    prop = name.split('-')[0]
    r = run_one(prop, patch, expect_fire=fire)
    return name, r
with ThreadPoolExecutor(max_workers=6) as ex:
    res = list(ex.map(one, items))
for name, r in res:
    extra = r.get('report', '')[:150] if r['result'] in ('caught',) else (r.get('tail', '')[-400:].replace('\n', ' | ') if r['result'] not in ('silent', 'caught') else '')
    print('%-8s %-14s exit=%s %s' % (name, r['result'], r.get('exit', ''), extra))
if arg == 'seeded' and '--update' in sys.argv:
    for name, r in res:
        p = '/verif/seeded/%s/meta.json' % name
        m = json.load(open(p))
        m['detected_now'] = (r['result'] == 'caught')
        if r['result'] == 'caught':
            mm = re.search(r': ([RW]-C\d+[-\w]*)', r.get('report', ''))
            if mm and not m.get('detected_by'):
                m['detected_by'] = mm.group(1)
            m['current_report'] = r.get('report', '')[:400]
        json.dump(m, open(p, 'w'), indent=1)
