#!/usr/bin/env python3-vt
"""Regenerates /verif/MANIFEST.json from the table below and validates it against the schema.
Properties with a rule module listed in CLAIMS are claimed; all others go to not_applicable with
the reason given in NOT_CLAIMED (kept current by hand)."""
import json
import os
import sys

HERE = os.path.dirname(os.path.dirname(os.path.abspath(__file__)))

# id -> (category, technique, text (what is decided), note (what is assumed / not decided), design_ref)
CLAIMS = {
    'C09': ('other',
            'typestate analysis over clang CFGs (inlining abstract interpreter), null-guard dominance, record-layout facts',
            "Static typestate analysis of every instantiated Optional member (5 payload types incl. heap-owning and "
            "over-aligned; callees inlined; branches refined on the engaged flag) decides for all histories the per-"
            "operation invariant 'raw storage holds a live payload iff the flag is set', no payload operation on empty "
            "storage, no construction over a live payload, destructor leaves nothing alive; comparisons dereference only "
            "engaged operands; storage alignment from clang's record layout; for payloads that are not trivially copyable the storage bytes "
            "are used only as a placement-new address or through a cast to T* (never copied/swapped/filled as bytes); a value assignment "
            "does not read its by-reference argument after destroying the old payload; Any: holder dereferences dominated by a "
            "validity test, clone-on-copy, copy assignment reads (and clones) its source before it releases the payload it owns "
            "(the source may live inside that payload), an Any source of every value category (lvalue, const lvalue, rvalue, const rvalue) "
            "is copied by the copy members and no holder is instantiated for the payload type Any, get<T> guarded by the exact-type test and "
            "otherwise throwing std::runtime_error, and the type-name helper behind toString() / the mismatch message hands "
            "abi::__cxa_demangle only a null or malloc()ed buffer; members of Any that describe the held value (a cached type) are written by every "
            "member that replaces the holder; every placement-new of an Optional payload is direct (not list) initialisation; the functions of demangle.cpp keep no mutable static state touched without a lock (R-C09-12); an Optional source of every value category is copied by a constructor that takes an Optional (R-C09-13); the holder base through which Any deletes its payload has a virtual destructor (R-C09-14); an Optional converts to no payload-like type implicitly (R-C09-15); a deduced `U &&` parameter of Optional / Any is never std::move()d - an lvalue argument keeps its value (R-C09-16); no Optional member that constructs or assigns a payload is unconditionally noexcept (R-C09-17); is<T>() compares the complete type names / type_info, never a bounded prefix. "
            "These are necessary structural conditions of the property decided on every path; value equality of what is "
            "returned is not decided.",
            "Trusted: clang 14 front end/CFG; payload types behave as values; *this and the assignment argument are "
            "distinct objects. Not decided: the payload type's own behaviour, self-assignment aliasing.",
            'DESIGN.md section 5, C09'),
}

CLAIMS['C16'] = ('proof',
    'interprocedural abstract interpretation over clang CFGs (non-NUL look-ahead domain, callee summaries, recursion fixpoint), loop-progress rule, call-graph throw-type / noexcept-barrier / static-state rules',
    "Proof of the memory-safety and termination clauses: an abstract interpreter over the CFGs of every function reachable "
    "from parseXML (domain: number of leading bytes known non-NUL, anchor byte behind the cursor, excluded byte values; "
    "branch refinement on character tests incl. user predicates through their own summaries; fixpoint for parseNode's "
    "recursion) shows that for every byte string in a NUL-terminated buffer the cursor never passes the terminator, no "
    "byte outside the buffer is read (forwards or backwards), and every loop iteration consumes input; readXML is shown "
    "to build that NUL-terminated buffer and every throw reachable from it to be std::runtime_error; no function with a "
    "non-throwing exception specification on that call graph can reach a throw (no std::terminate instead of an error), "
    "and no mutable static/thread-local state read by the parser is left changed on a normal or exceptional exit (the result "
    "does not depend on earlier calls); pure std::string out-parameters are written on every successful return; begin/end "
    "cursor pairs are ordered when used as ranges; whitespace is excluded in front of the delimiters of a tag head / header "
    "(a structural part of the faithfulness clause); a token [begin, end) consists of exactly the bytes of its scan loop (neither the "
    "delimiter that ends the scan nor a consumed delimiter the scan would stop at, no scanned byte lost), children are only appended in "
    "parse order and a property is stored under the name/value pair one parseProp call produced; the backward trim of a text content removes whitespace bytes only (its "
    "condition evaluated for every byte value, plain char signed); wherever one comment is accepted a run of comments is (after a skipped comment the skipper is tried again before any other parse action, helpers followed); a read loop in readXML has an exit that does not depend on fread delivering bytes, and a negative ftell() result is rejected before it sizes the buffer, and the FILE is closed on every return and when a callee throws; memcmp-style block comparisons stay inside the bytes known to be in the buffer and results of strstr/strchr are tested for null before use; writes through self-allocated buffers stay inside them; a length returned by snprintf/vsnprintf is clamped before it is used to read the buffer (R-C16-15); no std::sto* conversion of document text outside a try block that converts std::invalid_argument / std::out_of_range (R-C16-16); every return of readXML is reached only through a read of the file in this call (R-C16-17); no static object is changed by the parser without a lock (readXML may run concurrently on different files), memcpy from the cursor needs all its bytes inside the buffer, a buffer from new[] is zeroed or the parse is bounded by what fread delivered; no alloca / variable-length array sized by a token (R-C16-18); the parse functions do not leave the file buffer modified - a byte replaced temporarily is written back to the place it was saved from, any other store into the buffer is not decided (R-C16-19). Obligations = one per "
    "analysed function and clause; all must be discharged. The faithfulness clause (returned tree equals the generating "
    "tree) is a value-level property and is not decided.",
    "Trusted: clang 14 CFG; isalpha/isdigit/isspace are false at NUL; the abstract transfer functions of the rule engine "
    "(exercised by 11 seeded mutants / 4 benign rewrites). Not decided: tree faithfulness, recursion depth, exceptions "
    "raised inside the standard library for resource exhaustion (bad_alloc, length_error).",
    'DESIGN.md section 5, C16')

# properties whose level text is the EXPLANATION string of their rule module: id -> (technique, level note)
TECH = {
    'C01': ('CFG path counting with sign refinement, canonical-loop analysis, post-dominance (schedule/wait), exact preserved-value sets over integral conversion chains, linear normal forms of the block arithmetic, token automaton for the enkiTS running count, compile witnesses x 4 backends',
            'Trusted: tbb::parallel_for and `omp parallel for` contracts; design section 4. One known finding (internal backend, counts >= 2^32, see known_findings.json). '
            'Not decided: linearizability of the lock-free pipe and visibility of body effects under the hardware memory model (the pipe protocol order is checked, '
            'not its sufficiency); behaviour of the user functor.'),
    'C02': ('CFG path / ordering / ownership analysis over the 4 tasking backend configurations; member-order rule; who-may-delete over ITaskSet overrides',
            'Trusted: backend contracts (tbb::task_arena::enqueue, task_group::run, std::thread, the enkiTS pipe invoke a submitted callable exactly once); '
            'no exception edges. One known finding (internal backend: application threads the scheduler did not create share the single-writer pipe 0, see known_findings.json). Not decided: that an enqueued task eventually runs beyond the wake-up handshake and drain rules (liveness); std::packaged_task/std::future internals.'),
    'C03': ('ordering automata over clang CFGs (store-own-flag-then-load-the-other handshake), lock-scope and condition-variable discipline',
            'Trusted: C++11 seq_cst total order; one controlling thread at a time; one AsyncLoopData per object. Not decided: wake-up latency '
            'beyond the absence of a lost wake-up; a body that never returns; that tasking::schedule runs the closure (C02).'),
    'C04': ('pattern-level (dependent AST) term normal forms, truth tables and polynomial normal forms for every function of vec.h; typed resolved-callee cross-check; LLVM-IR value-graph identities; static_assert layout witnesses',
            'Built-in arithmetic element types, no NaN, no UB. Not decided: floating-point rounding (any association order of a sum is accepted); the scalar kernels rcp/rsqrt/madd (C07).'),
    'C05': ('order-atom truth tables, lattice-shape matching, polynomial normal form, corner-set enumeration on the dependent AST and typed instantiations; LLVM-IR identities against per-axis definitions',
            'Relies on C04 for vec min/max/anyLessThan. Not decided: rounding ("within rounding"), NaN bounds, correctness of xfmPoint itself (C06), conditioning of the affine map; clamp on inverted ranges is a precondition.'),
    'C06': ('translation validation of identity drivers: LLVM-IR value-graph normal form of both sides (real compiler does overload resolution/inlining), exact rational-function identity with sympy; AST/CFG shape rules (linear program over branch guards, dominance, interval iteration of the Newton step in the singular-value domain, interval range of sin/cos denominators, translation-independence of xfmVector/xfmNormal, alignment of SIMD load/store operands, no reciprocal of the determinant formed on the way from det() to the result of inverse())',
            'Real-number semantics of float operations; non-zero denominators; sin^2+cos^2=1 and the double-angle formulas as trig facts. Not decided: '
            'tolerance vs condition number (rounding) beyond the conditioning/orthogonal() clauses, the slerp weights strictly between the end points, SIMD rcp/rsqrt approximations (C07; the padded SIMD configuration skips the three identities that go through them); orthogonal() assumes singular values in [1/64, 64]. '
            'AffineSpaceT::rotate(p, quaternion) cannot be instantiated at all (observation).'),
    'C07': ('LLVM-IR value-graph normal form of identity drivers + interval bound of the Newton-Raphson error polynomial; AST purity rule',
            'Real-number reading of float operations with relative rounding <= 2^-24 per operation (no under/overflow); rcpss/rsqrtss estimate error '
            '<= 1.5*2^-12 (Intel SDM); no NaN/-0. Not decided: denormal, -0, NaN and huge inputs incl. rcp_safe on them; monotonicity/accuracy of pow; '
            'last rounding step of the distributions.'),
    'C08': ('abstract reference accounting over CFGs of every IntrusivePtr member (all null/aliasing scenarios); atomic-RMW normal form; compile witnesses',
            'Assumes handles are not mutated concurrently with their own use and callers own the counts they release. Not decided: writes to the public '
            'ptr from outside rkcommon; a pointee destructor that re-enters the handle being assigned.'),
    'C10': ('CFG path summaries against per-operation specifications, sibling (const/non-const) agreement, mutator vocabulary',
            'The rules are the invariants a conformance proof needs (necessary conditions); step-by-step agreement with a reference map on arbitrary '
            'histories is not claimed. KEY::operator== and Any (C09) are trusted. FlatMap::operator[] const cannot be instantiated (observation).'),
    'C11': ('CFG path summaries with expression normal forms, ownership provenance of the view pointer, special-member facts from clang',
            'Trusted: std::vector / shared_ptr contracts. Not decided: contents after a history (only extents, lifetimes and aliasing); validity of '
            'caller-supplied (pointer,size) pairs; allocation failure.'),
    'C12': ('guarded-by lock-scope analysis with a frozen field->mutex table; path automata for append / move-out / update',
            'Constructors/destructors are exempt (no concurrent access yet); a moved-from vector is empty. Not decided: cross-thread value order beyond '
            'what mutual exclusion implies; payload / std::vector / std::mutex behaviour.'),
    'C13': ('inlining value-flow / interval path-splitting over clang CFGs under all 4 backend configurations',
            'NDEBUG build; TBB/OpenMP honour the limit they are given. Not decided (runtime quantity, not statically reachable): that no more than n threads '
            'are ever simultaneously inside parallel_for bodies.'),
    'C14': ('per-configuration value-flow, interval overflow analysis of the size product, static_assert witnesses',
            'LP64; backend allocators (scalable_aligned_malloc, _mm_malloc, posix_memalign) honour their contracts; the _WIN32 branch is not parsed. '
            'Not decided: what the allocators return; std::vector\'s use of the allocator (element survival across reallocation).'),
    'C15': ('path-sensitive integer normal-form propagation (exact bounds guards) + wire-signature pairing of writer/reader operators chosen by overload resolution',
            'Assumes cursor+size does not wrap and public members are not modified by user code. Not decided: value equality after a round trip.'),
    'C17': ('LLVM-IR polynomial identities with Div/Mod atoms + typed-AST width lint + AST normal forms of loops and adaptors',
            'Arithmetic mod 2^N with nsw/nuw taken at their word; extents and indices non-negative; the int narrowing inside coordsOf is accepted for an '
            'index inside the extent. Not decided: right inverse reshape(flatten(c)) = c (needs range facts); tightness of getValueRange.'),
    'C18': ('CFG typestate (extension-dot guard), relational normal forms (token filters), table agreement (SI ladder), loop-shape rules',
            'Integer arithmetic read without wrap-around (except npos+1); std library contracts trusted. Not decided: split/re-join and URL round-trip '
            'laws as statements over all strings; split(keepDelim); FileName normalisation; printed precision.'),
    'C19': ('registration-invariant interpretation of Observer/Observable members, normal forms, who-may-write over all library sources, special-member facts',
            'Observer histories are treated as sequential. Not decided: cross-thread ordering between notifyObservers and wasNotified; wrap-around of the '
            '64-bit stamp counter.'),
    'C20': ('interval evaluation of index polynomials over template arguments + JSON skeleton automaton run to a fixpoint over the CFG of saveLog',
            'User strings need no JSON escaping; numbers print as finite; histories have matched begin/end. Not decided: decoded pixel equality; JSON '
            'escaping of names; nesting of the recorded history.'),
}

# built but not yet clean on /repo (fix pending): not claimed until then
HOLD = set()

NOT_CLAIMED = {}

PENDING = ("check not built yet in this revision of /verif (planned static rules are described in DESIGN.md section 5); "
           "not claimed until its rule module exists and is clean on the pinned tree")


def main():
    props = [json.loads(l) for l in open(os.path.join(HERE, 'properties.jsonl'))]
    checks = []
    na = []
    for p in props:
        pid = p['id']
        if pid not in HOLD and (pid in CLAIMS or (pid in TECH and os.path.exists(os.path.join(HERE, 'rules', pid + '.py')))):
            if pid in CLAIMS:
                cat, tech, text, note, ref = CLAIMS[pid]
            else:
                sys.path.insert(0, HERE)
                import importlib
                mod = importlib.import_module('rules.' + pid)
                cat, text = mod.LEVEL, ' '.join(mod.EXPLANATION.split())
                tech, note = TECH[pid]
                ref = 'DESIGN.md section 5, %s; section 9 (implementation status)' % pid
            checks.append({
                'property_id': pid,
                'quick_cmd': './check %s --tier quick' % pid,
                'thorough_cmd': './check %s --tier thorough' % pid,
                'evidence_file': '/verif/evidence/%s.json' % pid,
                'replay_cmd_template': './check %s --replay {path}' % pid,
                'engine': 'rkstatic',
                'level_claimed': {'category': cat, 'text': text, 'design_ref': ref},
                'level_note': note,
                'technique': tech,
            })
        else:
            na.append({'property_id': pid, 'reason': NOT_CLAIMED.get(pid, PENDING)})
    m = {
        'version': 1,
        'setup_cmd': './setup.sh',
        'hooks': {
            'guard': 'RKCOMMON_VERIF',
            'enable': 'no hooks: nothing of rkcommon is executed; checks parse /repo with clang -fsyntax-only plus the '
                      'rkfacts plugin and never define the guard',
            'baseline_off_cmd': 'cmake -G Ninja -S /repo -B /repo/_build -DBUILD_TESTING=ON -DCMAKE_BUILD_TYPE=RelWithDebInfo '
                                '&& cmake --build /repo/_build && ctest --test-dir /repo/_build -j8 --timeout 900',
            'source_commits': [],
            'add_only': True,
        },
        'engines': [{
            'name': 'rkstatic',
            'path': '/verif/rkstatic',
            'serves_properties': [c['property_id'] for c in checks],
            'kind_free_text': 'clang-14 frontend plugin (plugin/rkfacts.cc: JSON AST + resolved callees + clang::CFG per '
                              'function, per tasking configuration) feeding repository-specific Python rules (rules/Cxx.py): '
                              'typestate / dataflow / dominance / lock-scope / normal-form analyses; no rkcommon code is run',
        }],
        'checks': checks,
        'not_applicable': na,
        'notes': 'Static analysis only. Exit 0 = held (KNOWN-FINDING lines allowed), 1 = VIOLATION, 2 = analysis broken or '
                 'undecided (never reported as a pass). known_findings.json lists recorded/fixed defects; seeded/ holds '
                 'independently written property-breaking changes used to test the checks.',
    }
    out = os.path.join(HERE, 'MANIFEST.json')
    json.dump(m, open(out, 'w'), indent=1)
    try:
        import jsonschema
        jsonschema.validate(m, json.load(open('/root/.vp/MANIFEST.schema.json')))
        print('MANIFEST.json valid: %d checks, %d not_applicable' % (len(checks), len(na)))
    except ImportError:
        print('jsonschema not available; manifest written unvalidated')


if __name__ == '__main__':
    main()
