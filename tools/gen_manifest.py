#!/usr/bin/env python3-vt
"""Regenerates /verif/MANIFEST.json from the table below and validates it against the schema.
Properties with a rule module listed in CLAIMS are claimed; all others go to not_applicable with
the reason given in NOT_CLAIMED (kept current by hand)."""
import json
import os
import sys

HERE = os.path.dirname(os.path.dirname(os.path.abspath(__file__)))

# id -> (category, technique, text (what is decided), note (what is assumed / not decided), design_ref)
CLAIMS = {
    'C09': ('other',
            'typestate analysis over clang CFGs (inlining abstract interpreter), null-guard dominance, record-layout facts',
            "Static typestate analysis of every instantiated Optional member (5 payload types incl. heap-owning and "
            "over-aligned; callees inlined; branches refined on the engaged flag) decides for all histories the per-"
            "operation invariant 'raw storage holds a live payload iff the flag is set', no payload operation on empty "
            "storage, no construction over a live payload, destructor leaves nothing alive; comparisons dereference only "
            "engaged operands; storage alignment from clang's record layout; Any: holder dereferences dominated by a "
            "validity test, clone-on-copy, get<T> guarded by the exact-type test and otherwise throwing std::runtime_error. "
            "These are necessary structural conditions of the property decided on every path; value equality of what is "
            "returned is not decided.",
            "Trusted: clang 14 front end/CFG; payload types behave as values; *this and the assignment argument are "
            "distinct objects. Not decided: the payload type's own behaviour, self-assignment aliasing.",
            'DESIGN.md section 5, C09'),
}

CLAIMS['C16'] = ('proof',
    'interprocedural abstract interpretation over clang CFGs (non-NUL look-ahead domain, callee summaries, recursion fixpoint), loop-progress rule, call-graph throw-type rule',
    "Proof of the memory-safety and termination clauses: an abstract interpreter over the CFGs of every function reachable "
    "from parseXML (domain: number of leading bytes known non-NUL, anchor byte behind the cursor, excluded byte values; "
    "branch refinement on character tests incl. user predicates through their own summaries; fixpoint for parseNode's "
    "recursion) shows that for every byte string in a NUL-terminated buffer the cursor never passes the terminator, no "
    "byte outside the buffer is read (forwards or backwards), and every loop iteration consumes input; readXML is shown "
    "to build that NUL-terminated buffer and every throw reachable from it to be std::runtime_error. Obligations = one per "
    "analysed function and clause; all must be discharged. The faithfulness clause (returned tree equals the generating "
    "tree) is a value-level property and is not decided.",
    "Trusted: clang 14 CFG; isalpha/isdigit/isspace are false at NUL; the abstract transfer functions of the rule engine "
    "(exercised by 11 seeded mutants / 4 benign rewrites). Not decided: tree faithfulness, recursion depth, exceptions "
    "raised inside the standard library (bad_alloc), non-regular files where ftell fails.",
    'DESIGN.md section 5, C16')

NOT_CLAIMED = {}

PENDING = ("check not built yet in this revision of /verif (planned static rules are described in DESIGN.md section 5); "
           "not claimed until its rule module exists and is clean on the pinned tree")


def main():
    props = [json.loads(l) for l in open(os.path.join(HERE, 'properties.jsonl'))]
    checks = []
    na = []
    for p in props:
        pid = p['id']
        if pid in CLAIMS and os.path.exists(os.path.join(HERE, 'rules', pid + '.py')):
            cat, tech, text, note, ref = CLAIMS[pid]
            checks.append({
                'property_id': pid,
                'quick_cmd': './check %s --tier quick' % pid,
                'thorough_cmd': './check %s --tier thorough' % pid,
                'evidence_file': '/verif/evidence/%s.json' % pid,
                'replay_cmd_template': './check %s --replay {path}' % pid,
                'engine': 'rkstatic',
                'level_claimed': {'category': cat, 'text': text, 'design_ref': ref},
                'level_note': note,
                'technique': tech,
            })
        else:
            na.append({'property_id': pid, 'reason': NOT_CLAIMED.get(pid, PENDING)})
    m = {
        'version': 1,
        'setup_cmd': './setup.sh',
        'hooks': {
            'guard': 'RKCOMMON_VERIF',
            'enable': 'no hooks: nothing of rkcommon is executed; checks parse /repo with clang -fsyntax-only plus the '
                      'rkfacts plugin and never define the guard',
            'baseline_off_cmd': 'cmake -G Ninja -S /repo -B /repo/_build -DBUILD_TESTING=ON -DCMAKE_BUILD_TYPE=RelWithDebInfo '
                                '&& cmake --build /repo/_build && ctest --test-dir /repo/_build -j8 --timeout 900',
            'source_commits': [],
            'add_only': True,
        },
        'engines': [{
            'name': 'rkstatic',
            'path': '/verif/rkstatic',
            'serves_properties': [c['property_id'] for c in checks],
            'kind_free_text': 'clang-14 frontend plugin (plugin/rkfacts.cc: JSON AST + resolved callees + clang::CFG per '
                              'function, per tasking configuration) feeding repository-specific Python rules (rules/Cxx.py): '
                              'typestate / dataflow / dominance / lock-scope / normal-form analyses; no rkcommon code is run',
        }],
        'checks': checks,
        'not_applicable': na,
        'notes': 'Static analysis only. Exit 0 = held (KNOWN-FINDING lines allowed), 1 = VIOLATION, 2 = analysis broken or '
                 'undecided (never reported as a pass). known_findings.json lists recorded/fixed defects; seeded/ holds '
                 'independently written property-breaking changes used to test the checks.',
    }
    out = os.path.join(HERE, 'MANIFEST.json')
    json.dump(m, open(out, 'w'), indent=1)
    try:
        import jsonschema
        jsonschema.validate(m, json.load(open('/root/.vp/MANIFEST.schema.json')))
        print('MANIFEST.json valid: %d checks, %d not_applicable' % (len(checks), len(na)))
    except ImportError:
        print('jsonschema not available; manifest written unvalidated')


if __name__ == '__main__':
    main()
