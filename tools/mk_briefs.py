#!/usr/bin/env python3-vt
"""usage: mk_briefs.py <round> [extra-notes-file]  -- writes /verif/inbox/<builder>-round<N>.md for every builder that owns a property with
seeded changes of that round (from seeded/*/meta.json)."""
import glob, json, os, subprocess, sys
rnd = int(sys.argv[1])
extra = open(sys.argv[2]).read() if len(sys.argv) > 2 else ''
OWN = {'builder-c01': ['C01'], 'builder-c02': ['C02'], 'builder-c03-c12': ['C03', 'C12'], 'builder-c04-c05': ['C04', 'C05'],
       'builder-ir-c07-c17': ['C07', 'C17'], 'builder-c08-c19': ['C08', 'C19'], 'builder-c11-c10': ['C11', 'C10'],
       'builder-c13-c14': ['C13', 'C14'], 'builder-c15-c20': ['C15', 'C20'], 'builder-c18': ['C18']}
head = subprocess.run(['git', '-C', '/repo', 'rev-parse', '--short', 'HEAD'], capture_output=True, text=True).stdout.strip()
RULES = open(os.path.join(os.path.dirname(__file__), 'BUILDER_RULES.md')).read().replace('@HEAD@', head)
for b, props in OWN.items():
    items = []
    for p in props:
        for m in sorted(glob.glob('/verif/seeded/%s-*/meta.json' % p), key=lambda x: int(x.split('/')[-2].split('-')[1])):
            d = json.load(open(m))
            if d.get('round') != rnd:
                continue
            v = d.get('initial_verdict')
            tag = {'caught': 'reported CAUGHT (check that the cause named is the real one)', 'missed': 'MISSED (exit 0)',
                   'undecided': 'UNDECIDED / ANALYSIS-BROKEN (exit 2)'}.get(v, v)
            items.append('- %s — %s\n  change: %s\n  needs: %s\n  your check said: %s' % (
                m.split('/')[-2], tag, d.get('breaks', ''), d.get('needs', ''), (d.get('initial_report') or '')[:420]))
    if not items:
        continue
    txt = ('Round %d of independently written breaking changes (fresh agents, property text + the list of mechanisms already tried; each change '
           'confirmed by me: library and suite pass with it, the demo fails with it and passes without) is stored as /verif/seeded/<id>/ '
           '(patch.diff, notes.md, demo, meta.json). /repo HEAD is %s. I committed all your earlier work. Results for your properties (%s):\n\n'
           % (rnd, head, ', '.join(props))) + '\n'.join(items) + '\n\n' + RULES + ('\n' + extra if extra else '')
    open('/verif/inbox/%s-round%d.md' % (b, rnd), 'w').write(txt)
    print('wrote', b, len(items))
