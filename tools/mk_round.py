#!/usr/bin/env python3-vt
"""Prepares a seeding / refactoring round: creates one scratch worktree of /repo per property under /tmp and writes the sub-agent prompts
to /tmp/prompts/<prefix>-Cxx.txt (property text + worktree path + the one-line list of mechanisms already used; nothing else from /verif).
usage: mk_round.py seed|ref <prefix> <n-per-property> [props...]"""
import glob, json, os, subprocess, sys
kind, prefix, n = sys.argv[1:4]
props = sys.argv[4:] or ['C%02d' % i for i in range(1, 21)]
os.makedirs('/tmp/prompts', exist_ok=True)
for p in props:
    wt = '/tmp/%s-%s' % (prefix, p)
    if not os.path.isdir(wt):
        subprocess.check_call(['git', '-C', '/repo', 'worktree', 'add', '-f', '--detach', wt, 'HEAD'], stdout=subprocess.DEVNULL, stderr=subprocess.DEVNULL)
    tool = 'seeder_prompt.py' if kind == 'seed' else 'refactor_prompt.py'
    txt = subprocess.run([os.path.join(os.path.dirname(__file__), tool), p, wt, n], capture_output=True, text=True, check=True).stdout
    if kind == 'seed':
        tried = []
        for m in sorted(glob.glob('/verif/seeded/%s-*/meta.json' % p)):
            b = json.load(open(m)).get('breaks')
            if b:
                tried.append('- ' + b)
        if tried:
            txt += ('\nEarlier rounds already tried the following mechanisms for this property; do NOT repeat them or close variants of them, pick '
                    'different code sites, different clauses of the property and different mechanisms:\n' + '\n'.join(tried) + '\n')
    else:
        tried = []
        for m in sorted(glob.glob('/verif/refactors/%s-R*/notes.md' % p)):
            first = [l.strip('# ').strip() for l in open(m).read().splitlines() if l.strip()]
            if first:
                tried.append('- ' + first[0][:160])
        if tried:
            txt += ('\nEarlier rounds already made the following changes; make different ones (other functions, other kinds of restructuring):\n'
                    + '\n'.join(tried) + '\n')
    open('/tmp/prompts/%s-%s.txt' % (prefix, p), 'w').write(txt)
print('prepared', len(props), 'worktrees and prompts under /tmp/prompts')
