#!/usr/bin/env python3-vt
"""Create a mutant/benign patch against the current /repo tree.
usage: mkpatch.py <prop> <mutants|benign> <name> --expect STR --about STR --edit FILE OLD NEW [--edit ...] [--all] [--root DIR]
OLD must occur exactly once in FILE unless --all is given."""
import difflib, os, sys
args = sys.argv[1:]
prop, kind, name = args[:3]
args = args[3:]
expect = about = None
ROOT = '/repo'
edits = []
allocc = False
i = 0
while i < len(args):
    if args[i] == '--expect': expect = args[i+1]; i += 2
    elif args[i] == '--about': about = args[i+1]; i += 2
    elif args[i] == '--all': allocc = True; i += 1
    elif args[i] == '--root': ROOT = args[i+1]; i += 2
    elif args[i] == '--edit': edits.append(tuple(args[i+1:i+4])); i += 4
    else: sys.exit('bad arg ' + args[i])
out = []
if expect: out.append('# expect: %s\n' % expect)
if about: out.append('# about: %s\n' % about)
byfile = {}
for f, old, new in edits:
    src = byfile.get(f)
    if src is None:
        src = open(os.path.join(ROOT, f)).read()
    old = old.encode().decode('unicode_escape'); new = new.encode().decode('unicode_escape')
    c = src.count(old)
    if c == 0 or (c != 1 and not allocc):
        sys.exit('%s: OLD occurs %d times' % (f, c))
    byfile[f] = src.replace(old, new)
for f, new in byfile.items():
    old = open(os.path.join(ROOT, f)).read()
    out += list(difflib.unified_diff(old.splitlines(True), new.splitlines(True), 'a/' + f, 'b/' + f))
d = os.path.join(os.path.dirname(os.path.dirname(os.path.abspath(__file__))), kind, prop)
os.makedirs(d, exist_ok=True)
p = os.path.join(d, name + '.patch')
open(p, 'w').write(''.join(out))
print('wrote', p)
