#!/usr/bin/env python3-vt
"""usage: process_round.py <round> <src-prefix> <offset> [props...]
Stages /tmp/<src-prefix>-Cxx-out/Cxx-k as /tmp/stage/Cxx-(k+offset), evaluates each with the owning check, confirms each in a scratch
worktree (tools/confirm_seed.sh, build mode guessed from the demo's own instructions, with fallbacks), and prints one line per change:
  id verdict(caught|missed|undecided) mode confirm(clean_exit/patched_exit) first report line
Writes /tmp/stage/summary.json. Storing into /verif/seeded is done by store_round.py after review."""
import glob, json, os, re, shutil, subprocess, sys
sys.path.insert(0, os.path.dirname(os.path.dirname(os.path.abspath(__file__))))
from concurrent.futures import ThreadPoolExecutor
from rkstatic.selftest import run_one
rnd, prefix = sys.argv[1], sys.argv[2]
offset = None if sys.argv[3] == 'auto' else int(sys.argv[3])     # auto: continue after the highest id stored for the property
def offset_of(p):
    if offset is not None:
        return offset
    ks = [int(d.rsplit('-', 1)[1]) for d in glob.glob('/verif/seeded/%s-*' % p) if d.rsplit('-', 1)[1].isdigit()]
    return max(ks) if ks else 0
props = sys.argv[4:]
ST = '/tmp/stage'
os.makedirs(ST, exist_ok=True)
items = []
for d in sorted(glob.glob('/tmp/%s-C*-out' % prefix)):
    p = re.search(r'-(C\d+)-out$', d).group(1)
    if props and p not in props:
        continue
    for k in (1, 2, 3, 4):
        src = '%s/%s-%d' % (d, p, k)
        if os.path.isfile(src + '/patch.diff'):
            dst = '%s/%s-%d' % (ST, p, k + offset_of(p))
            if os.path.exists(dst):
                shutil.rmtree(dst)
            shutil.copytree(src, dst, ignore=shutil.ignore_patterns('_build*', 'build*', '*.o', '*.so', 'demo', 'demo_*'))
            items.append((p, '%s-%d' % (p, k + offset_of(p))))

def guess_modes(d):
    txt = ''
    for f in ('demo.sh', 'demo.cpp', 'notes.md'):
        if os.path.exists(d + '/' + f):
            txt += open(d + '/' + f, errors='replace').read()
    modes = []
    if os.path.exists(d + '/demo.sh'):
        modes.append('sh')
    if 'RKCOMMON_TASKING_INTERNAL' in txt:
        modes.append('int')
    if '-fopenmp' in txt or 'RKCOMMON_TASKING_OMP' in txt:
        modes.append('omp')
    if 'RKCOMMON_TASKING_TBB' in txt:
        modes.append('tbb')
    if '-ldl' in txt and '-rdynamic' in txt:
        modes.append('dl')
    if '-fsanitize=thread' in txt:
        modes.append('tsan')
    if 'librkcommon.so' in txt:
        modes += ['gso', 'asanso', 'so']
    modes += ['hdr', 'hdrg', 'hdra']
    out = []
    for m in modes:
        if m not in out:
            out.append(m)
    return out

def one(it):
    p, name = it
    d = ST + '/' + name
    r = run_one(p, d + '/patch.diff', expect_fire=True)
    verdict = 'caught' if r['result'] == 'caught' else ('undecided' if r.get('exit') == 2 else 'missed')
    conf = None
    for m in guess_modes(d)[:5]:
        try:
            o = subprocess.run(['/verif/tools/confirm_seed.sh', ST, name, m], capture_output=True, text=True, timeout=2400).stdout
        except subprocess.TimeoutExpired:
            continue
        mm = re.search(r"build_with_patch=(\d+) ctest='([^']*)' demo_clean_exit=(\d+) demo_patched_exit=(\d+)", o)
        if mm and mm.group(1) == '0' and '100% tests passed' in mm.group(2) and mm.group(3) == '0' and mm.group(4) != '0':
            conf = (m, int(mm.group(3)), int(mm.group(4)))
            break
        last = (m, o.strip().splitlines()[-1] if o.strip() else '')
    rep = (r.get('report') or r.get('tail', '')[-300:]).replace('\n', ' | ')
    return {'id': name, 'prop': p, 'verdict': verdict, 'confirmed': conf, 'last': None if conf else last, 'report': rep[:400]}

with ThreadPoolExecutor(max_workers=6) as ex:
    res = list(ex.map(one, items))
json.dump(res, open(ST + '/summary.json', 'w'), indent=1)
for r in res:
    print(r['id'], r['verdict'], r['confirmed'] or ('UNCONFIRMED', r['last']), r['report'][:230])
print('caught %d, missed %d, undecided %d, unconfirmed %d' % (sum(r['verdict'] == 'caught' for r in res), sum(r['verdict'] == 'missed' for r in res),
                                                              sum(r['verdict'] == 'undecided' for r in res), sum(r['confirmed'] is None for r in res)))
