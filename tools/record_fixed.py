#!/usr/bin/env python3-vt
"""Adds `fixed:<commit>` entries to known_findings.json for every fixes/*.diff whose '# fix:' subject is a commit in /repo."""
import glob, json, os, re, subprocess
HERE = os.path.dirname(os.path.dirname(os.path.abspath(__file__)))
log = subprocess.run(['git', '-C', '/repo', 'log', '--format=%h %s'], capture_output=True, text=True).stdout.splitlines()
bysubj = {l.split(' ', 1)[1]: l.split(' ', 1)[0] for l in log}
kf = json.load(open(os.path.join(HERE, 'known_findings.json')))
have = {(f['property'], f['key']) for f in kf['findings']}
n = 0
for p in sorted(glob.glob(os.path.join(HERE, 'fixes', '*.diff'))):
    txt = open(p).read()
    subj = re.search(r'^# fix:\s*(.+)$', txt, re.M)
    failed = re.search(r'^# failed:\s*(.+)$', txt, re.M)
    keys = re.findall(r'^# key:\s*(.+)$', txt, re.M)
    if not subj or ('fix: ' + subj.group(1).strip()) not in bysubj:
        continue
    commit = bysubj['fix: ' + subj.group(1).strip()]
    prop = os.path.basename(p).split('-')[0]
    for k in keys:
        k = k.strip()
        if (prop, k) in have:
            continue
        what = (failed.group(1).strip() if failed else subj.group(1).strip())
        kf['findings'].append({'property': prop, 'key': k, 'status': 'fixed:' + commit, 'what': what, 'fix_patch': 'fixes/' + os.path.basename(p),
                               'record': 'fixed: property=%s %s %s' % (prop, commit, what)})
        n += 1
json.dump(kf, open(os.path.join(HERE, 'known_findings.json'), 'w'), indent=1)
print('added', n, 'entries; total', len(kf['findings']))
