#!/usr/bin/env python3-vt
"""prints the prompt for a fresh 'refactorer' sub-agent: property text + scratch worktree only (nothing from /verif)"""
import json, sys
pid, wt = sys.argv[1], sys.argv[2]
n = sys.argv[3] if len(sys.argv) > 3 else '4'
p = [json.loads(l) for l in open('/verif/properties.jsonl') if json.loads(l)['id'] == pid][0]
print(f"""You are a maintainer of the C++ library ospray/rkcommon (Intel Render Kit common utilities). You have your own scratch git worktree of it at {wt} (a checkout of its current HEAD). Work ONLY inside {wt} and {wt}-out; never touch /repo or /verif, and do not read anything under /verif.

The library is supposed to satisfy this property (id {pid}: {p['title']}):

  {p['statement']}

  Relevant source files: {', '.join(p['anchors']['files'])}

Your task: produce {n} independent BEHAVIOUR-PRESERVING changes to the library's own sources in those files (not the tests): the kind of clean-up, modernisation, micro-optimisation or restructuring a maintainer really makes - e.g. extracting a helper function, inlining a helper, replacing a hand-written loop by a standard algorithm (or the reverse), reordering independent statements, renaming locals/members, replacing an if by a conditional expression or an early return, changing a lock_guard to a unique_lock, caching a value in a local, using a different but equivalent arithmetic form, splitting a long function, adding a harmless member (statistics counter, debug name), changing a container operation to an equivalent one. Each change must keep the property above TRUE for every input, schedule and history - be careful and conservative: think about aliasing, exceptions, overflow, empty inputs, concurrency; if in doubt, choose a simpler change. Make the changes non-trivial (not whitespace/comments only): they should touch the code that implements the property, and at least two of the {n} should restructure control flow or move code between functions.

For each change k = 1..{n} write a directory {wt}-out/{pid}-R{{k}}/ containing:
  * patch.diff  - `git diff` of the library sources against HEAD (must apply with `git apply` to a clean checkout)
  * notes.md    - what was changed, and a short argument why behaviour (with respect to the property) is unchanged, including the corner cases you considered.

Build and test each change: `cmake -G Ninja -S {wt} -B {wt}/_build -DBUILD_TESTING=ON -DCMAKE_BUILD_TYPE=RelWithDebInfo >/dev/null && cmake --build {wt}/_build && ctest --test-dir {wt}/_build -j8` (offline machine; TBB tasking backend; other backends via -DRKCOMMON_TASKING_SYSTEM=OpenMP|Internal|Debug - if you touch backend-specific code, build that backend too). Where practical also write a small differential test (old vs new behaviour on many inputs) and run it, with sanitizers where relevant. Between changes reset the worktree with `git -C {wt} checkout -- .`. Leave the worktree clean when you finish. Final message: one paragraph per change.""")
