#!/usr/bin/env python3-vt
"""Runs every check registered in MANIFEST.json (quick or thorough) in parallel and prints a summary table."""
import json, os, subprocess, sys, time
from concurrent.futures import ThreadPoolExecutor
HERE = os.path.dirname(os.path.dirname(os.path.abspath(__file__)))
tier = sys.argv[1] if len(sys.argv) > 1 else 'quick'
m = json.load(open(os.path.join(HERE, 'MANIFEST.json')))
def one(c):
    cmd = c['quick_cmd'] if tier == 'quick' else c.get('thorough_cmd', c['quick_cmd'])
    t = time.time()
    r = subprocess.run(cmd, shell=True, cwd=HERE, capture_output=True, text=True)
    lines = [l for l in r.stdout.splitlines() if l.startswith(('VIOLATION', 'KNOWN-FINDING', 'ANALYSIS-BROKEN', 'UNDECIDED', 'note: self-test'))]
    return c['property_id'], r.returncode, time.time() - t, lines, r.stdout.splitlines()[-1:] 
with ThreadPoolExecutor(max_workers=8) as ex:
    res = list(ex.map(one, m['checks']))
bad = 0
for pid, rc, dt, lines, last in res:
    print('%s exit=%d %5.1fs %s' % (pid, rc, dt, last[0] if last else ''))
    for l in lines:
        print('     ' + l[:300])
    bad += rc != 0
sys.exit(1 if bad else 0)
