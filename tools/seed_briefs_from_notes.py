import glob, json, os, re
out={}
for d in sorted(glob.glob('/tmp/stage/C*-*')):
    n=d+'/notes.md'
    if not os.path.exists(n): print('NONOTES', d); continue
    t=open(n, errors='replace').read()
    m=re.search(r'^#\s*(?:C\d+-\d+\s*[:\-—–]*\s*)?(.+)$', t, re.M)
    title=m.group(1).strip() if m else ''
    m=re.search(r'^#+\s*(?:What it needs|Needs|What it needs to manifest|What is needed|Precondition[s]?|When it manifests|What it takes to manifest)[^\n]*\n(.*?)(?=\n#|\Z)', t, re.M|re.S|re.I)
    needs=''
    if m:
        para=m.group(1).strip().split('\n\n')[0]
        needs=' '.join(para.split())
    needs=re.sub(r'[`*]', '', needs)[:300]
    title=re.sub(r'[`*]', '', title)[:260]
    out[os.path.basename(d)]=(title, needs)
    json.dump({'breaks':title,'needs':needs}, open(d+'/brief.json','w'), indent=1)
for k,v in out.items(): print(k, '|', v[0][:110], '|', v[1][:110])
