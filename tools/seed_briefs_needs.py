import glob, json, os, re
for d in sorted(glob.glob('/tmp/stage/C*-*')):
    b=json.load(open(d+'/brief.json'))
    if b['needs']: continue
    t=open(d+'/notes.md', errors='replace').read()
    m=re.search(r'\*\*[^*\n]*(?:[Nn]eeds|manifest|Mechanism|[Tt]rigger|[Ww]hen)[^*\n]*\*\*:?\s*(.*?)(?=\n\s*\n|\n\*\*|\Z)', t, re.S)
    if not m:
        m=re.search(r'(?:needs|manifest)[^\n]*?[:\-]\s*(.*?)(?=\n\s*\n|\Z)', t, re.S|re.I)
    needs=' '.join(m.group(1).split()) if m else ''
    needs=re.sub(r'[`*]', '', needs)[:300]
    b['needs']=needs
    json.dump(b, open(d+'/brief.json','w'), indent=1)
    print(os.path.basename(d), '|', needs[:160])
