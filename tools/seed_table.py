#!/usr/bin/env python3
"""prints markdown rows `| id breaks | needs | initial verdict | caught now by |` for the seeded changes of a round (default 2), from meta.json"""
import glob, json, re, sys
rnd = int(sys.argv[1]) if len(sys.argv) > 1 else 2
skip = set(sys.argv[2:])
rows = []
for m in sorted(glob.glob('/verif/seeded/*/meta.json'), key=lambda p: (p.split('/')[-2].split('-')[0], int(p.split('/')[-2].split('-')[1]))):
    d = json.load(open(m))
    name = m.split('/')[-2]
    if d.get('round', 1) != rnd or name.split('-')[0] in skip:
        continue
    by = d.get('detected_by') or ''
    rep = d.get('current_report', '')
    mm = re.search(r': ([RW]-C\d+[-\w]*)', rep)
    if mm:
        by = mm.group(1)
        k = re.search(r'\[key=[^|]*\|[^|]*\|[^|]*\|([^\]]*)', rep)
        if k:
            by += ' ' + k.group(1)[:40]
    iv = d.get('initial_verdict', 'caught' if d.get('detected_initially') else 'missed')
    rows.append('| %s %s | %s | %s | %s |' % (name, d.get('breaks', ''), d.get('needs', ''), iv, by if d.get('detected_now') else '**not caught**'))
print('\n'.join(rows))
