#!/usr/bin/env python3-vt
"""prints the prompt for a fresh 'seeder' sub-agent: property text + scratch worktree only (nothing from /verif)"""
import json, sys
pid, wt = sys.argv[1], sys.argv[2]
n = sys.argv[3] if len(sys.argv) > 3 else '2'
p = [json.loads(l) for l in open('/verif/properties.jsonl') if json.loads(l)['id'] == pid][0]
print(f"""You are testing how well a C++ library's safety net catches regressions. You have your own scratch git worktree of the library ospray/rkcommon (Intel Render Kit common utilities) at {wt} (a checkout of its current HEAD). Work ONLY inside {wt} and {wt}-out; never touch /repo or /verif, and do not read anything under /verif.

Property that the library is supposed to satisfy (id {pid}: {p['title']}):

  {p['statement']}

  It is meant to hold over: {p['quantifier']['text']}

  Relevant source files: {', '.join(p['anchors']['files'])}

Your task: produce {n} independent changes to the library's own sources (under rkcommon/, not the tests) that each BREAK this property while the library still compiles and the existing test suite still passes. Each change should look like a plausible maintenance edit (a refactoring, an optimisation, a 'simplification', a merge slip) and be subtle: it must need something specific to manifest - a particular interleaving, a crash or fault at a particular point, a multi-step sequence of operations, an unusual input, or two cooperating sites that each look fine alone - not something ordinary use would expose at once. Use different mechanisms for the different changes (do not make {n} variants of the same slip).

For each change k = 1..{n} write a directory {wt}-out/{pid}-k/ containing:
  * patch.diff  - `git diff` of the library sources against HEAD (must apply with `git apply` to a clean checkout)
  * demo.cpp (or demo.sh + sources) - a small demonstration program/test that FAILS (non-zero exit, sanitizer report, wrong output, hang detected by a timeout) with the change and PASSES without it; say exactly how to build and run it against a given rkcommon tree (include paths: -I<tree> -I<tree>/_build ; library: <tree>/_build/librkcommon.so ; c++11; sanitizers -fsanitize=address,undefined or thread are available with clang++ and g++)
  * notes.md - which part of the property it breaks, what it needs in order to manifest, why the existing tests do not notice, and the commands you ran with their results.

How to build and test a tree: `cmake -G Ninja -S {wt} -B {wt}/_build -DBUILD_TESTING=ON -DCMAKE_BUILD_TYPE=RelWithDebInfo >/dev/null && cmake --build {wt}/_build && ctest --test-dir {wt}/_build -j8` (offline machine; TBB tasking backend; other backends can be selected with -DRKCOMMON_TASKING_SYSTEM=OpenMP|Internal|Debug). Between changes reset the worktree with `git -C {wt} checkout -- .`.

Confirm for every change, by actually running it: (1) the library and the test suite build and all tests pass with the change applied; (2) your demo fails with the change and passes on the unchanged tree. Leave the worktree clean (no changes applied) when you finish. Final message: for each change one paragraph (files touched, what breaks, what the demo shows).""")
