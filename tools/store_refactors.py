#!/usr/bin/env python3
"""usage: store_refactors.py <src-prefix>  -- copies /tmp/<prefix>-Cxx-out/Cxx-Rk (patch.diff + notes.md) to /verif/refactors/Cxx-R(k+max existing);
prints the new ids. The patches must apply to /repo HEAD (checked)."""
import glob, os, re, shutil, subprocess, sys
prefix = sys.argv[1]
new = []
for d in sorted(glob.glob('/tmp/%s-C*-out' % prefix)):
    p = re.search(r'-(C\d+)-out$', d).group(1)
    have = [int(x.rsplit('-R', 1)[1]) for x in glob.glob('/verif/refactors/%s-R*' % p)]
    off = max(have) if have else 0
    for src in sorted(glob.glob('%s/%s-R*' % (d, p))):
        k = int(src.rsplit('-R', 1)[1])
        if not os.path.isfile(src + '/patch.diff'):
            continue
        r = subprocess.run(['git', '-C', '/repo', 'apply', '--check', src + '/patch.diff'], capture_output=True, text=True)
        if r.returncode != 0:
            print('does not apply:', src, r.stderr[:200])
            continue
        dst = '/verif/refactors/%s-R%d' % (p, k + off)
        os.makedirs(dst, exist_ok=True)
        shutil.copy(src + '/patch.diff', dst + '/patch.diff')
        if os.path.isfile(src + '/notes.md'):
            shutil.copy(src + '/notes.md', dst + '/notes.md')
        new.append(os.path.basename(dst))
print(' '.join(new))
