#!/usr/bin/env python3
"""usage: store_round.py <round>   -- stores the confirmed changes of /tmp/stage (see process_round.py) under /verif/seeded with meta.json;
`breaks`/`needs` are taken from /tmp/stage/<id>/brief.json if present ({"breaks":..,"needs":..}), else from the first lines of notes.md"""
import json, os, re, shutil, sys
rnd = int(sys.argv[1])
ST = '/tmp/stage'
res = json.load(open(ST + '/summary.json'))
n = 0
for r in res:
    if not r['confirmed']:
        print('skip (unconfirmed):', r['id'])
        continue
    d = '/verif/seeded/' + r['id']
    if os.path.exists(d):
        shutil.rmtree(d)
    shutil.copytree(ST + '/' + r['id'], d)
    for root, dirs, files in os.walk(d):
        for f in files:
            p = os.path.join(root, f)
            if os.path.getsize(p) > 300000:
                os.remove(p)
    brief = {}
    if os.path.exists(d + '/brief.json'):
        brief = json.load(open(d + '/brief.json'))
        os.remove(d + '/brief.json')
    if not brief and os.path.exists(d + '/notes.md'):
        lines = [l.strip() for l in open(d + '/notes.md', errors='replace').read().splitlines() if l.strip() and not l.startswith('#')]
        brief = {'breaks': ' '.join(lines[:2])[:300], 'needs': ''}
    mode = r['confirmed'][0]
    m = {'property': r['prop'], 'round': rnd, 'breaks': brief.get('breaks', ''), 'needs': brief.get('needs', ''), 'demo_mode': mode,
         'detected_initially': r['verdict'] == 'caught', 'initial_verdict': r['verdict'], 'detected_by': '',
         'confirmed': {'cmd': 'tools/confirm_seed.sh <out> %s %s' % (r['id'], mode),
                       'result': 'library+tests build with the patch, ctest 16/16 pass; demo exits %d on the clean tree and %d on the patched tree' % (r['confirmed'][1], r['confirmed'][2])},
         'source': 'written by a fresh sub-agent that was given only the property text, the list of mechanisms already tried, and a scratch worktree of /repo (round %d)' % rnd,
         'detected_now': r['verdict'] == 'caught', 'initial_report': r['report']}
    json.dump(m, open(d + '/meta.json', 'w'), indent=1)
    n += 1
print('stored', n)
