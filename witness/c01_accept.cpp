// W-C01-1: parallel_for must compile for every accepted index type (C01_TYPE given: that type only).
#include "rkcommon/tasking/parallel_for.h"
#include <cstddef>
namespace rkverif_c01w {
  template <typename T>
  void use(T n, long long *out)
  {
    rkcommon::tasking::parallel_for(n, [&](T i) { out[(size_t)i] += 1; });
  }
#ifdef C01_TYPE
  template void use<C01_TYPE>(C01_TYPE, long long *);
#else
  template void use<unsigned char>(unsigned char, long long *);
  template void use<short>(short, long long *);
  template void use<int>(int, long long *);
  template void use<unsigned>(unsigned, long long *);
  template void use<long>(long, long long *);
  template void use<long long>(long long, long long *);
  template void use<unsigned long long>(unsigned long long, long long *);
  template void use<size_t>(size_t, long long *);
#endif
}  // namespace rkverif_c01w
