// R-C01-4 / W-C01-5: block sizes that the index type cannot represent.  Either the library rejects them at compile time
// (static_assert) or, if they compile, the instantiations are analysed like the driver's.  C01_BIG selects one case.
#include "rkcommon/tasking/parallel_for.h"
#include <cstddef>
namespace rkverif_c01w {
  template <int B, typename T>
  void big_blocks(T n, long long *out)
  {
    rkcommon::tasking::parallel_in_blocks_of<B>(n, [&](T b, T e) {
      for (T i = b; i < e; ++i)
        out[(size_t)i] += 1;
    });
  }
#if !defined(C01_BIG) || C01_BIG == 1
  template void big_blocks<256, unsigned char>(unsigned char, long long *);
#endif
#if !defined(C01_BIG) || C01_BIG == 2
  template void big_blocks<32768, short>(short, long long *);
#endif
#if !defined(C01_BIG) || C01_BIG == 3
  template void big_blocks<40000, short>(short, long long *);
#endif
}  // namespace rkverif_c01w
