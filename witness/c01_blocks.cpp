// W-C01-3: parallel_in_blocks_of<16> must compile for every accepted index type (C01_TYPE given: that type only).
#include "rkcommon/tasking/parallel_for.h"
#include <cstddef>
namespace rkverif_c01w {
  template <typename T>
  void use_blocks(T n, long long *out)
  {
    rkcommon::tasking::parallel_in_blocks_of<16>(n, [&](T b, T e) {
      for (T i = b; i < e; ++i)
        out[(size_t)i] += 1;
    });
  }
#ifdef C01_TYPE
  template void use_blocks<C01_TYPE>(C01_TYPE, long long *);
#else
  template void use_blocks<unsigned char>(unsigned char, long long *);
  template void use_blocks<short>(short, long long *);
  template void use_blocks<int>(int, long long *);
  template void use_blocks<unsigned>(unsigned, long long *);
  template void use_blocks<long>(long, long long *);
  template void use_blocks<long long>(long long, long long *);
  template void use_blocks<unsigned long long>(unsigned long long, long long *);
  template void use_blocks<size_t>(size_t, long long *);
#endif
}  // namespace rkverif_c01w
