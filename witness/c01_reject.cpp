// W-C01-2: each case must be rejected by a static_assert of parallel_for (one case per compilation: -DC01_CASE=n).
#include "rkcommon/tasking/parallel_for.h"
#include <cstddef>
namespace rkverif_c01w {
  void reject(long long *out)
  {
#if C01_CASE == 1   // char is not an index type
    rkcommon::tasking::parallel_for(char(8), [&](char i) { out[(size_t)i] += 1; });
#elif C01_CASE == 2  // float is not an index type
    rkcommon::tasking::parallel_for(8.f, [&](float i) { out[(size_t)i] += 1; });
#elif C01_CASE == 3  // unsigned short is not an index type
    rkcommon::tasking::parallel_for((unsigned short)8, [&](unsigned short i) { out[(size_t)i] += 1; });
#elif C01_CASE == 4  // functor parameter type differs from the index type
    rkcommon::tasking::parallel_for(8, [&](size_t i) { out[i] += 1; });
#elif C01_CASE == 5  // parallel_in_blocks_of: unsigned short is not an index type
    rkcommon::tasking::parallel_in_blocks_of<16>((unsigned short)8, [&](unsigned short b, unsigned short e) { out[b] += e; });
#elif C01_CASE == 0  // positive control: must compile
    rkcommon::tasking::parallel_for(8, [&](int i) { out[(size_t)i] += 1; });
#endif
  }
}  // namespace rkverif_c01w
