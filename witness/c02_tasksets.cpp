// Positive / negative examples for the C02 detectors whose expected finding count on /repo is zero once the
// genuine defects are repaired. Parsed (INTERNAL backend) on every run, never compiled into anything or executed:
// rules/C02.py requires each detector to give exactly the verdict named in its EXPECT table for these records.
#include "rkcommon/tasking/detail/TaskSys.h"
#include "rkcommon/tasking/detail/async_task.inl"
#include "rkcommon/tasking/detail/enkiTS/LockLessMultiReadPipe.h"

#include <atomic>
#include <functional>
#include <algorithm>
#include <memory>
#include <mutex>
#include <string>
#include <utility>
#include <vector>

namespace rkverif {
  namespace c02w {

    using rkcommon::tasking::detail::Task;

    // ---- R-C02-6 (ii): ExecuteRange overrides that destroy *this (must be flagged) and one that does not
    struct SelfDelete : public Task
    {
      void ExecuteRange(enki::TaskSetPartition, uint32_t) override
      {
        delete this;
      }
    };

    struct ViaMethod : public Task
    {
      void retire()
      {
        delete this;
      }
      void ExecuteRange(enki::TaskSetPartition, uint32_t) override
      {
        retire();
      }
    };

    inline void destroyTask(Task *t)
    {
      delete t;
    }

    struct ViaHelper : public Task
    {
      void ExecuteRange(enki::TaskSetPartition, uint32_t) override
      {
        destroyTask(this);
      }
    };

    struct KeepsItself : public Task
    {
      int runs{0};
      void ExecuteRange(enki::TaskSetPartition, uint32_t) override
      {
        ++runs;
      }
    };

    // ---- R-C02-6 (iii): deleting a task object outside ExecuteRange
    inline void reapGuarded(Task *t)
    {
      if (t->GetIsComplete())
        delete t;
    }

    inline void reapAfterWait(Task *t)
    {
      rkcommon::tasking::detail::scheduleTaskInternal(t);
      rkcommon::tasking::detail::waitInternal(t);
      delete t;
    }

    inline void reapUnguarded(Task *t)
    {
      rkcommon::tasking::detail::scheduleTaskInternal(t);
      delete t;
    }

    inline void neverScheduled()
    {
      Task *t = new KeepsItself;
      delete t;
    }

    // ---- R-C02-2 / R-C02-4: member order and destructor of a class that starts a task in its constructor
    struct StartsTooEarly
    {
      StartsTooEarly() : impl([this]() { result = std::string("done"); done = true; }) {}
      ~StartsTooEarly()
      {
        impl.wait();
      }
      std::atomic<bool> done{false};
      rkcommon::tasking::detail::AsyncTaskImpl<std::function<void()>> impl;
      std::string result;  // constructed after the task has been started
    };

    struct StartsLast
    {
      StartsLast() : impl([this]() { result = std::string("done"); done = true; }) {}
      ~StartsLast()
      {
        impl.wait();
      }
      std::atomic<bool> done{false};
      std::string result;
      rkcommon::tasking::detail::AsyncTaskImpl<std::function<void()>> impl;
    };

    // a task handle whose destructor does NOT wait (independent of what rkcommon's AsyncTaskImpl does in its destructor)
    template <typename TASK_T>
    struct BareStarter
    {
      BareStarter(TASK_T &&fcn) : task(std::forward<TASK_T>(fcn))
      {
        rkcommon::tasking::detail::scheduleTaskInternal(&task);
      }
      void wait()
      {
        rkcommon::tasking::detail::waitInternal(&task);
      }

     private:
      struct LocalTask : public enki::ITaskSet
      {
        TASK_T t;
        LocalTask(TASK_T &&fcn) : t(std::forward<TASK_T>(fcn)) {}
        void ExecuteRange(enki::TaskSetPartition, uint32_t) override
        {
          t();
        }
      };
      LocalTask task;
    };

    struct NeverWaits
    {
      NeverWaits() : impl([this]() { result = std::string("done"); done = true; }) {}
      ~NeverWaits() {}
      std::atomic<bool> done{false};
      std::string result;
      BareStarter<std::function<void()>> impl;
    };

    // ---- R-C02-6 (iv): a task may become reachable by a completion-guarded delete only after it was scheduled
    static std::vector<Task *> g_outstanding;

    inline void publishThenSchedule(Task *task)
    {
      g_outstanding.push_back(task);  // running count still 0: looks complete to a concurrent sweeper
      rkcommon::tasking::detail::scheduleTaskInternal(task);
    }

    inline void scheduleThenPublish(Task *task)
    {
      rkcommon::tasking::detail::scheduleTaskInternal(task);
      std::vector<Task *> mine;
      mine.push_back(task);
      g_outstanding.insert(g_outstanding.end(), mine.begin(), mine.end());
    }

    inline void sweepThenSchedule(Task *task)
    {
      std::vector<Task *> mine;
      mine.push_back(task);
      for (Task *t : mine) {
        if (t->GetIsComplete())
          delete t;
      }
      rkcommon::tasking::detail::scheduleTaskInternal(task);
    }

    // ---- R-C02-10: a task (its closure's destructor is user code) is not destroyed under the lock schedule() takes
    static std::mutex g_listMutex;
    static std::vector<Task *> g_list;

    inline void reapUnderLock()  // a closure destructor that schedules re-enters and blocks on g_listMutex
    {
      std::lock_guard<std::mutex> lock(g_listMutex);
      for (Task *t : g_list) {
        if (t->GetIsComplete())
          delete t;
      }
    }

    inline void reapLambdaUnderLock()
    {
      std::lock_guard<std::mutex> lock(g_listMutex);
      g_list.erase(std::remove_if(g_list.begin(), g_list.end(),
                                  [](Task *t) {
                                    if (!t->GetIsComplete())
                                      return false;
                                    delete t;
                                    return true;
                                  }),
                   g_list.end());
    }

    inline void reapOutsideLock()
    {
      std::vector<Task *> mine;
      {
        std::lock_guard<std::mutex> lock(g_listMutex);
        mine.swap(g_list);
      }
      for (Task *t : mine) {
        if (t->GetIsComplete())
          delete t;
      }
    }

    inline void reapSnapshot()  // R-C02-6 (v): a copy of the shared list is swept -- concurrent callers delete the same task
    {
      std::vector<Task *> snapshot;
      {
        std::lock_guard<std::mutex> lock(g_listMutex);
        snapshot = g_list;
      }
      for (Task *t : snapshot) {
        if (t->GetIsComplete())
          delete t;
      }
    }

    inline void reapAfterUnlock()
    {
      std::unique_lock<std::mutex> lock(g_listMutex);
      std::vector<Task *> mine;
      mine.swap(g_list);
      lock.unlock();
      for (Task *t : mine) {
        if (t->GetIsComplete())
          delete t;
      }
    }

    // ---- R-C02-16: static destruction order of a registry of tasks relative to the scheduler
    static std::vector<Task *> w_registryBefore;  // declared before the scheduler: destroyed after it (accepted)

    // ---- R-C02-8: a scheduler that may hold queued tasks is drained before its pipes are discarded
    static std::unique_ptr<enki::TaskScheduler> w_ts;

    static std::vector<Task *> w_registryAfter;  // declared after the scheduler: destroyed before it (flagged)

    inline std::vector<Task *> &registryOnFirstUse()  // function-local static: constructed later, destroyed earlier (flagged)
    {
      static std::vector<Task *> w_registryLocal;
      return w_registryLocal;
    }

    inline std::vector<Task *> &registryLeaked()  // never destroyed (accepted)
    {
      static std::vector<Task *> *w_registryHeap = new std::vector<Task *>;
      return *w_registryHeap;
    }

    // ---- R-C02-14: stealing loops
    struct Stealer
    {
      enki::LockLessMultiReadPipe<4, int> pipes[4];
      uint32_t count;

      bool stealAll(uint32_t self, uint32_t &hint, int *out)  // accepted: count iterations
      {
        bool have = false;
        uint32_t victim = hint, c = 0;
        while (!have && c < count) {
          victim = (hint + c) % count;
          if (victim != self)
            have = pipes[victim].ReaderTryReadBack(out);
          ++c;
        }
        return have;
      }

      bool stealShort(uint32_t self, uint32_t &hint, int *out)  // flagged: count - 1 iterations from an arbitrary start
      {
        bool have = false;
        uint32_t victim = hint, c = 0;
        while (!have && c < count - 1) {
          victim = (hint + c) % count;
          if (victim != self)
            have = pipes[victim].ReaderTryReadBack(out);
          ++c;
        }
        return have;
      }

      bool stealFromNext(uint32_t self, int *out)  // accepted: count - 1 iterations starting right after the own pipe
      {
        bool have = false;
        uint32_t victim = 0;
        for (uint32_t c = 0; !have && c < count - 1; ++c) {
          victim = (self + 1 + c) % count;
          if (victim != self)
            have = pipes[victim].ReaderTryReadBack(out);
        }
        return have;
      }
    };

    // ---- R-C02-15: slot ring, the writer may only overwrite a slot whose flag the readers have reset
    struct SlotRing
    {
      int buf[4];
      volatile uint32_t flags[4];
      volatile uint32_t writeIndex, readCount;

      bool writeChecked(int v)  // accepted
      {
        uint32_t i = writeIndex & 3;
        if (flags[i] != 0)
          return false;
        buf[i]   = v;
        flags[i] = 1;
        ++writeIndex;
        return true;
      }

      bool writeByCounters(int v)  // flagged: the read count advances before the reader has copied the item
      {
        uint32_t i = writeIndex & 3;
        if (writeIndex - readCount >= 4)
          return false;
        buf[i]   = v;
        flags[i] = 1;
        ++writeIndex;
        return true;
      }

      bool readClaimed(uint32_t i, int *out)  // accepted: the slot is claimed with a compare-and-swap
      {
        uint32_t previous = enki::AtomicCompareAndSwap(&flags[i], 2u, 1u);
        if (previous != 1u)
          return false;
        ++readCount;
        *out     = buf[i];
        flags[i] = 0;
        return true;
      }

      bool readTestThenStore(uint32_t i, int *out)  // flagged: two takers can both see the slot readable
      {
        uint32_t previous = flags[i];
        if (1u == previous) {
          flags[i] = 2;
          *out     = buf[i];
          flags[i] = 0;
          return true;
        }
        return false;
      }
    };

    inline void reinitKeepsScheduler(int n)  // Initialize() stops the threads and deletes the pipes: queued tasks are dropped
    {
      if (w_ts.get() == nullptr)
        w_ts = std::unique_ptr<enki::TaskScheduler>(new enki::TaskScheduler());
      w_ts->Initialize(n);
    }

    inline void reinitFresh(int n)  // the old scheduler's destructor drains; the new one is empty
    {
      w_ts.reset(new enki::TaskScheduler());
      w_ts->Initialize(n);
    }

    inline void reinitDrained(int n)
    {
      w_ts->WaitforAll();
      w_ts->Initialize(n);
    }

    // ---- R-C02-7: sleep/wake handshake (register, re-check, sleep / publish, wake)
    struct Handshake
    {
      volatile int32_t waiting;
      enki::semaphoreid_t sem;
      enki::LockLessMultiReadPipe<4, int> pipe;

      void wake()
      {
        enki::SemaphoreSignal(sem, waiting);
      }

      void sleepRegisteredFirst()  // accepted
      {
        enki::AtomicAdd(&waiting, 1);
        if (pipe.IsPipeEmpty())
          enki::SemaphoreWait(sem);
        enki::AtomicAdd(&waiting, -1);
      }

      void sleepCheckedFirst()  // lost wake-up: a task published between the check and the registration
      {
        if (pipe.IsPipeEmpty()) {
          enki::AtomicAdd(&waiting, 1);
          enki::SemaphoreWait(sem);
          enki::AtomicAdd(&waiting, -1);
        }
      }

      void sleepUnregistered()  // the waiter count is raised only after the sleep
      {
        if (pipe.IsPipeEmpty())
          enki::SemaphoreWait(sem);
        enki::AtomicAdd(&waiting, 1);
        enki::AtomicAdd(&waiting, -1);
      }

      void publishThenWake(int v)  // accepted
      {
        if (pipe.WriterTryWriteFront(v))
          wake();
      }

      void publishFenceThenWake(int v)  // accepted by the fence clause as well: full fence between pipe write and count read
      {
        if (pipe.WriterTryWriteFront(v)) {
          __sync_synchronize();
          wake();
        }
      }

      void sleepPlainIncrement()  // registration is not a read-modify-write (no full fence)
      {
        ++waiting;
        if (pipe.IsPipeEmpty())
          enki::SemaphoreWait(sem);
        enki::AtomicAdd(&waiting, -1);
      }

      void publishSpinUntilRoom(int v)  // R-C02-11: a full pipe makes the caller wait for other threads
      {
        while (!pipe.WriterTryWriteFront(v))
          wake();
        wake();
      }

      void publishOrRunInline(int v, Task *t)  // R-C02-11 accepted: on a full pipe the thread runs the work itself
      {
        if (!pipe.WriterTryWriteFront(v)) {
          enki::TaskSetPartition range = {0, 1};
          t->ExecuteRange(range, 0);
        } else {
          __sync_synchronize();
          wake();
        }
      }

      void publishNoWake(int v)  // the task sits in the pipe, nobody is woken
      {
        if (!pipe.WriterTryWriteFront(v))
          return;
      }

      void wakeThenPublish(int v)  // woken workers find nothing, then the task arrives unannounced
      {
        wake();
        bool ok = pipe.WriterTryWriteFront(v);
        (void)ok;
      }
    };

    // ---- R-C02-3: outside the closure the result member is only read
    struct MovesOut
    {
      MovesOut() : impl([this]() { result = std::string("done"); done = true; }) {}
      ~MovesOut()
      {
        impl.wait();
      }
      std::string get()
      {
        impl.wait();
        return std::move(result);  // a second get() returns a moved-from string
      }
      std::atomic<bool> done{false};
      std::string result;
      rkcommon::tasking::detail::AsyncTaskImpl<std::function<void()>> impl;
    };

    struct Copies
    {
      Copies() : impl([this]() { result = std::string("done"); done = true; }) {}
      ~Copies()
      {
        impl.wait();
      }
      std::string get()
      {
        impl.wait();
        const std::string &r = result;
        return r;
      }
      std::atomic<bool> done{false};
      std::string result;
      rkcommon::tasking::detail::AsyncTaskImpl<std::function<void()>> impl;
    };

    inline void instantiate()
    {
      Stealer st;
      int got = 0;
      uint32_t hint = 1;
      st.stealAll(0, hint, &got);
      st.stealShort(0, hint, &got);
      st.stealFromNext(0, &got);
      SlotRing ring;
      ring.writeChecked(1);
      ring.writeByCounters(1);
      ring.readClaimed(0, &got);
      ring.readTestThenStore(0, &got);
      registryOnFirstUse();
      registryLeaked();
      (void)w_registryBefore;
      (void)w_registryAfter;
      Handshake hs;
      hs.sleepRegisteredFirst();
      hs.sleepCheckedFirst();
      hs.sleepUnregistered();
      hs.publishThenWake(1);
      hs.publishFenceThenWake(1);
      hs.sleepPlainIncrement();
      hs.publishNoWake(1);
      hs.publishSpinUntilRoom(1);
      hs.publishOrRunInline(1, nullptr);
      hs.wakeThenPublish(1);
      MovesOut m;
      Copies k;
      (void)m.get();
      (void)k.get();
      StartsTooEarly a;
      StartsLast b;
      NeverWaits c;
      SelfDelete *d = new SelfDelete;
      ViaMethod *e = new ViaMethod;
      ViaHelper *f = new ViaHelper;
      (void)d;
      (void)e;
      (void)f;
    }

  }  // namespace c02w
}  // namespace rkverif
