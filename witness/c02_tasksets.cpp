// Positive / negative examples for the C02 detectors whose expected finding count on /repo is zero once the
// genuine defects are repaired. Parsed (INTERNAL backend) on every run, never compiled into anything or executed:
// rules/C02.py requires each detector to give exactly the verdict named in its EXPECT table for these records.
#include "rkcommon/tasking/detail/TaskSys.h"
#include "rkcommon/tasking/detail/async_task.inl"

#include <atomic>
#include <functional>
#include <string>
#include <utility>
#include <vector>

namespace rkverif {
  namespace c02w {

    using rkcommon::tasking::detail::Task;

    // ---- R-C02-6 (ii): ExecuteRange overrides that destroy *this (must be flagged) and one that does not
    struct SelfDelete : public Task
    {
      void ExecuteRange(enki::TaskSetPartition, uint32_t) override
      {
        delete this;
      }
    };

    struct ViaMethod : public Task
    {
      void retire()
      {
        delete this;
      }
      void ExecuteRange(enki::TaskSetPartition, uint32_t) override
      {
        retire();
      }
    };

    inline void destroyTask(Task *t)
    {
      delete t;
    }

    struct ViaHelper : public Task
    {
      void ExecuteRange(enki::TaskSetPartition, uint32_t) override
      {
        destroyTask(this);
      }
    };

    struct KeepsItself : public Task
    {
      int runs{0};
      void ExecuteRange(enki::TaskSetPartition, uint32_t) override
      {
        ++runs;
      }
    };

    // ---- R-C02-6 (iii): deleting a task object outside ExecuteRange
    inline void reapGuarded(Task *t)
    {
      if (t->GetIsComplete())
        delete t;
    }

    inline void reapAfterWait(Task *t)
    {
      rkcommon::tasking::detail::scheduleTaskInternal(t);
      rkcommon::tasking::detail::waitInternal(t);
      delete t;
    }

    inline void reapUnguarded(Task *t)
    {
      rkcommon::tasking::detail::scheduleTaskInternal(t);
      delete t;
    }

    inline void neverScheduled()
    {
      Task *t = new KeepsItself;
      delete t;
    }

    // ---- R-C02-2 / R-C02-4: member order and destructor of a class that starts a task in its constructor
    struct StartsTooEarly
    {
      StartsTooEarly() : impl([this]() { result = std::string("done"); done = true; }) {}
      ~StartsTooEarly()
      {
        impl.wait();
      }
      std::atomic<bool> done{false};
      rkcommon::tasking::detail::AsyncTaskImpl<std::function<void()>> impl;
      std::string result;  // constructed after the task has been started
    };

    struct StartsLast
    {
      StartsLast() : impl([this]() { result = std::string("done"); done = true; }) {}
      ~StartsLast()
      {
        impl.wait();
      }
      std::atomic<bool> done{false};
      std::string result;
      rkcommon::tasking::detail::AsyncTaskImpl<std::function<void()>> impl;
    };

    struct NeverWaits
    {
      NeverWaits() : impl([this]() { result = std::string("done"); done = true; }) {}
      ~NeverWaits() {}
      std::atomic<bool> done{false};
      std::string result;
      rkcommon::tasking::detail::AsyncTaskImpl<std::function<void()>> impl;
    };

    // ---- R-C02-6 (iv): a task may become reachable by a completion-guarded delete only after it was scheduled
    static std::vector<Task *> g_outstanding;

    inline void publishThenSchedule(Task *task)
    {
      g_outstanding.push_back(task);  // running count still 0: looks complete to a concurrent sweeper
      rkcommon::tasking::detail::scheduleTaskInternal(task);
    }

    inline void scheduleThenPublish(Task *task)
    {
      rkcommon::tasking::detail::scheduleTaskInternal(task);
      std::vector<Task *> mine;
      mine.push_back(task);
      g_outstanding.insert(g_outstanding.end(), mine.begin(), mine.end());
    }

    inline void sweepThenSchedule(Task *task)
    {
      std::vector<Task *> mine;
      mine.push_back(task);
      for (Task *t : mine) {
        if (t->GetIsComplete())
          delete t;
      }
      rkcommon::tasking::detail::scheduleTaskInternal(task);
    }

    // ---- R-C02-3: outside the closure the result member is only read
    struct MovesOut
    {
      MovesOut() : impl([this]() { result = std::string("done"); done = true; }) {}
      ~MovesOut()
      {
        impl.wait();
      }
      std::string get()
      {
        impl.wait();
        return std::move(result);  // a second get() returns a moved-from string
      }
      std::atomic<bool> done{false};
      std::string result;
      rkcommon::tasking::detail::AsyncTaskImpl<std::function<void()>> impl;
    };

    struct Copies
    {
      Copies() : impl([this]() { result = std::string("done"); done = true; }) {}
      ~Copies()
      {
        impl.wait();
      }
      std::string get()
      {
        impl.wait();
        const std::string &r = result;
        return r;
      }
      std::atomic<bool> done{false};
      std::string result;
      rkcommon::tasking::detail::AsyncTaskImpl<std::function<void()>> impl;
    };

    inline void instantiate()
    {
      MovesOut m;
      Copies k;
      (void)m.get();
      (void)k.get();
      StartsTooEarly a;
      StartsLast b;
      NeverWaits c;
      SelfDelete *d = new SelfDelete;
      ViaMethod *e = new ViaMethod;
      ViaHelper *f = new ViaHelper;
      (void)d;
      (void)e;
      (void)f;
    }

  }  // namespace c02w
}  // namespace rkverif
