// Positive / negative examples for R-C02-1 "tbb::task_group::run needs a wait" (expected finding count on /repo: zero).
// Parsed under the TBB configuration on every run, never compiled into anything or executed.
#define __TBB_NO_IMPLICIT_LINKAGE 1
#define __TBBMALLOC_NO_IMPLICIT_LINKAGE 1
#include <tbb/task_group.h>

#include <utility>

namespace rkverif {
  namespace c02w {

    struct Work
    {
      void operator()() const {}
    };

    inline tbb::task_group &leakedGroup()
    {
      static tbb::task_group *group = new tbb::task_group;
      return *group;
    }

    // spawned into a group nobody waits on: runs only if a worker happens to steal it (must be flagged)
    template <typename TASK_T>
    inline void detachedRun(TASK_T fcn)
    {
      leakedGroup().run(std::move(fcn));
    }

    // run + wait on every path: the closure has run when the function returns (accepted)
    template <typename TASK_T>
    inline void runAndWait(TASK_T fcn)
    {
      tbb::task_group group;
      group.run(std::move(fcn));
      group.wait();
    }

    // waits only on one branch (must be flagged)
    template <typename TASK_T>
    inline void runMaybeWait(TASK_T fcn, bool w)
    {
      tbb::task_group group;
      group.run(std::move(fcn));
      if (w)
        group.wait();
    }

    inline void instantiate()
    {
      detachedRun(Work{});
      runAndWait(Work{});
      runMaybeWait(Work{}, true);
    }

  }  // namespace c02w
}  // namespace rkverif
