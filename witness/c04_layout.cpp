// Compile-time witnesses for C04 (R-C04-5 layout, R-C04-4 result types). Compiled with -fsyntax-only; never run.
#include <cstddef>
#include <cstdint>
#include <type_traits>
#include "rkcommon/math/vec.h"

using namespace rkcommon::math;

template <typename T>
struct layout_witness
{
  typedef vec_t<T, 2> V2;
  typedef vec_t<T, 3> V3;
  typedef vec_t<T, 3, true> V3A;
  typedef vec_t<T, 4> V4;
  static_assert(std::is_standard_layout<V2>::value && std::is_standard_layout<V3>::value &&
                    std::is_standard_layout<V3A>::value && std::is_standard_layout<V4>::value,
                "vec_t is standard layout");
  static_assert(offsetof(V2, x) == 0 && offsetof(V2, y) == sizeof(T), "vec2 x,y");
  static_assert(sizeof(V2) == 2 * sizeof(T), "vec2 size");
  static_assert(offsetof(V3, x) == 0 && offsetof(V3, y) == sizeof(T) && offsetof(V3, z) == 2 * sizeof(T), "vec3 x,y,z");
  static_assert(sizeof(V3) == 3 * sizeof(T), "vec3 size");
  static_assert(offsetof(V3A, x) == 0 && offsetof(V3A, y) == sizeof(T) && offsetof(V3A, z) == 2 * sizeof(T), "vec3a x,y,z");
  static_assert(sizeof(V3A) == 4 * sizeof(T), "vec3a size (padded)");
  static_assert(offsetof(V4, x) == 0 && offsetof(V4, y) == sizeof(T) && offsetof(V4, z) == 2 * sizeof(T) &&
                    offsetof(V4, w) == 3 * sizeof(T),
                "vec4 x,y,z,w");
  static_assert(sizeof(V4) == 4 * sizeof(T), "vec4 size");
  static_assert(std::is_same<decltype(V2::x), T>::value && std::is_same<decltype(V4::w), T>::value,
                "component type is the element type");
};
#define LAYOUT(T) template struct layout_witness<T>;

LAYOUT(uint8_t)
LAYOUT(int8_t)
LAYOUT(uint16_t)
LAYOUT(int16_t)
LAYOUT(uint32_t)
LAYOUT(int32_t)
LAYOUT(uint64_t)
LAYOUT(int64_t)
LAYOUT(float)
LAYOUT(double)

// R-C04-4: the mixed element-type overloads return the type the built-in operator gives on the element types
#define MIXED(T, U, N, A)                                                                                          \
  static_assert(std::is_same<decltype(vec_t<T, N, A>() + vec_t<U, N, A>()), vec_t<decltype(T() + U()), N, A>>::value, "v+v"); \
  static_assert(std::is_same<decltype(vec_t<T, N, A>() - vec_t<U, N, A>()), vec_t<decltype(T() - U()), N, A>>::value, "v-v"); \
  static_assert(std::is_same<decltype(vec_t<T, N, A>() * vec_t<U, N, A>()), vec_t<decltype(T() * U()), N, A>>::value, "v*v"); \
  static_assert(std::is_same<decltype(vec_t<T, N, A>() / vec_t<U, N, A>()), vec_t<decltype(T() / U()), N, A>>::value, "v/v"); \
  static_assert(std::is_same<decltype(vec_t<T, N, A>() * U()), vec_t<decltype(T() * U()), N, A>>::value, "v*s");   \
  static_assert(std::is_same<decltype(T() * vec_t<U, N, A>()), vec_t<decltype(T() * U()), N, A>>::value, "s*v");   \
  static_assert(std::is_same<decltype(vec_t<T, N, A>() - U()), vec_t<decltype(T() - U()), N, A>>::value, "v-s");   \
  static_assert(std::is_same<decltype(T() / vec_t<U, N, A>()), vec_t<decltype(T() / U()), N, A>>::value, "s/v");

MIXED(int, float, 2, false)
MIXED(int, float, 3, false)
MIXED(int, float, 3, true)
MIXED(int, float, 4, false)
MIXED(float, double, 3, true)
MIXED(unsigned, long, 4, false)
MIXED(int16_t, int32_t, 2, false)
MIXED(uint8_t, float, 3, false)
static_assert(std::is_same<decltype(vec_t<int, 3>() % vec_t<long, 3>()), vec_t<long, 3>>::value, "v%v");
// same-type results keep the element type and the component count
static_assert(std::is_same<decltype(vec3f() + vec3f()), vec3f>::value, "vec3f+vec3f");
static_assert(std::is_same<decltype(vec3fa() + vec3f()), vec3f>::value, "vec3fa+vec3f");
static_assert(std::is_same<decltype(min(vec3fa(), vec3fa())), vec3fa>::value, "min(vec3fa)");
static_assert(std::is_same<decltype(dot(vec4i(), vec4i())), int>::value, "dot");
