// Compile-time witnesses for C05 (layout of range_t / box_t). Compiled with -fsyntax-only; never run.
#include <cstddef>
#include <type_traits>
#include "rkcommon/math/box.h"
#include "rkcommon/math/range.h"

using namespace rkcommon::math;

template <typename T>
struct range_witness
{
  typedef range_t<T> R;
  static_assert(std::is_standard_layout<R>::value, "range_t is standard layout");
  static_assert(offsetof(R, lower) == 0, "lower is the first bound");
  static_assert(offsetof(R, upper) == sizeof(T), "upper follows lower without padding");
  static_assert(sizeof(R) == 2 * sizeof(T), "range_t is exactly two bounds");
  static_assert(std::is_same<decltype(R::lower), T>::value && std::is_same<decltype(R::upper), T>::value, "bound type");
  static_assert(std::is_same<typename R::bound_t, T>::value, "bound_t");
};
template struct range_witness<float>;
template struct range_witness<double>;
template struct range_witness<int>;
template struct range_witness<vec2i>;
template struct range_witness<vec3i>;
template struct range_witness<vec4i>;
template struct range_witness<vec2f>;
template struct range_witness<vec3f>;
template struct range_witness<vec4f>;
template struct range_witness<vec3fa>;

static_assert(std::is_same<box3f, range_t<vec3f>>::value, "box3f is a range of vec3f");
static_assert(std::is_same<box3fa, range_t<vec3fa>>::value, "box3fa is a range of vec3fa");
static_assert(std::is_same<box1f, range_t<float>>::value, "box1f is a scalar range");
static_assert(std::is_same<decltype(box3i().size()), vec3i>::value, "size() is a vector");
static_assert(std::is_same<decltype(box3i().contains(vec3i())), bool>::value, "contains()");
static_assert(std::is_same<decltype(intersectionOf(box2f(), box2f())), box2f>::value, "intersectionOf");
static_assert(std::is_same<decltype(intersectRayBox(vec3f(), vec3f(), box3f())), range1f>::value, "intersectRayBox");
