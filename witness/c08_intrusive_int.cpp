// W-C08-2: must-fail unit (never run). IntrusivePtr<T> for a T that is not derived from RefCountedObject must
// be rejected at compile time. With -DRKVERIF_CONTROL the pointee is a RefCountedObject and the unit must compile.
#include "rkcommon/memory/IntrusivePtr.h"

namespace rkverif {
  struct Counted : public rkcommon::memory::RefCountedObject
  {
  };
#ifdef RKVERIF_CONTROL
  using Pointee = Counted;
#else
  using Pointee = int;
#endif
  inline void use()
  {
    rkcommon::memory::IntrusivePtr<Pointee> p;
    (void)p;
  }
}  // namespace rkverif
