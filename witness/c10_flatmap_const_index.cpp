// Witness for C10 (observation, not a verdict on the property): the const overload
//     const VALUE &FlatMap::operator[](const KEY &) const
// calls values.push_back(...) on a const vector, so it cannot be instantiated. This unit is expected NOT to
// compile; rules/C10.py records the outcome. If it ever compiles (the overload was repaired), the rule parses
// this unit and analyses the instantiated body like every other FlatMap member.
#include "rkcommon/containers/FlatMap.h"

namespace rkcommon {
  namespace containers {
    template const int &FlatMap<int, int>::operator[](const int &) const;
  }  // namespace containers
}  // namespace rkcommon
