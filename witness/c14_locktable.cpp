// Positive/negative example for R-C14-8 (parsed by the plugin, never run): the rule expects no instance in malloc.cpp today,
// so every run checks that it still recognises a guarded member (Good) and an access outside the lock (Bad).
#include <cstddef>
#include <mutex>
#include <unordered_map>

namespace c14w {
  struct Good
  {
    void add(void *p, size_t n)
    {
      std::lock_guard<std::mutex> lock(mutex);
      blocks[p] = n;
    }
    void remove(void *p)
    {
      std::unique_lock<std::mutex> lock(mutex);
      auto it = blocks.find(p);
      if (it != blocks.end())
        blocks.erase(it);
    }
    std::mutex mutex;
    std::unordered_map<void *, size_t> blocks;
  };

  struct Bad
  {
    void add(void *p, size_t n)
    {
      std::lock_guard<std::mutex> lock(mutex);
      blocks[p] = n;
    }
    void remove(void *p)
    {
      auto it = blocks.find(p);  // read outside the lock
      if (it == blocks.end())
        return;
      std::lock_guard<std::mutex> lock(mutex);
      blocks.erase(it);
    }
    std::mutex mutex;
    std::unordered_map<void *, size_t> blocks;
  };

  void use(Good &g, Bad &b, void *p)
  {
    g.add(p, 1);
    g.remove(p);
    b.add(p, 1);
    b.remove(p);
  }
}  // namespace c14w
