// W-C14: compile-time witnesses (must compile; every static_assert is one obligation).
#include <memory>
#include <string>
#include <type_traits>
#include <vector>

#include "rkcommon/containers/AlignedVector.h"

namespace c14w {
  struct S24
  {
    double d[3];
  };
  using rkcommon::containers::aligned_allocator;
  using rkcommon::containers::AlignedVector;

  template <typename T>
  struct Check
  {
    using V = AlignedVector<T>;
    // the container is a std::vector whose allocator is the 64-byte one
    static_assert(std::is_same<V, std::vector<T, aligned_allocator<T, 64>>>::value,
                  "W1 AlignedVector<T> is std::vector<T, aligned_allocator<T,64>>");
    static_assert(std::is_same<typename V::allocator_type, aligned_allocator<T, 64>>::value,
                  "W2 AlignedVector<T>::allocator_type is aligned_allocator<T,64>");
    // what std::vector really allocates through: the allocator rebound to its value type
    static_assert(std::is_same<typename std::allocator_traits<typename V::allocator_type>::template rebind_alloc<T>,
                               aligned_allocator<T, 64>>::value,
                  "W3 std::vector allocates through allocator_traits::rebind_alloc<T>: it must still be aligned_allocator<T,64> (rebind has to carry the alignment)");
    static_assert(std::is_same<typename V::allocator_type::value_type, T>::value, "W4 value_type");
    static_assert(std::is_same<typename V::allocator_type::pointer, T *>::value, "W5 raw pointers (data() is the allocation)");
    static constexpr bool ok = true;
  };

  static_assert(Check<char>::ok && Check<int>::ok && Check<double>::ok && Check<S24>::ok && Check<std::string>::ok,
                "instantiate the checks");
  static_assert(OSPRAY_DEFAULT_ALIGNMENT == 64, "W6 default alignment is 64");
}  // namespace c14w
