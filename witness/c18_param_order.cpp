// Positive example for R-C18-9 (rules/C18.py): the rule expects *zero* order-destroying operations on
// PseudoURL::params in /repo, so this unit keeps examples that must be recognised on every run.
// Parsed with -fsyntax-only, never linked or run.
#include <algorithm>
#include <string>
#include <utility>
#include <vector>

namespace rkverif {
  namespace c18w {
    struct Bag
    {
      std::vector<std::pair<std::string, std::string>> items;

      // accepted: append
      void add(const std::string &a, const std::string &b)
      {
        items.push_back(std::make_pair(a, b));
      }

      // must be reported: the insertion order of entries with equal names cannot be recovered afterwards
      void sortAll()
      {
        std::sort(items.begin(), items.end());
      }

      // must be reported: the default comparator of std::pair orders equal names by value
      void stableByPair()
      {
        std::stable_sort(items.begin(), items.end());
      }

      // accepted: read-only scan
      bool has(const std::string &n)
      {
        for (auto &it : items)
          if (it.first == n)
            return true;
        return false;
      }
    };
  }  // namespace c18w
}  // namespace rkverif
