// Positive example for R-C18-9 (rules/C18.py): the rule expects *zero* order-destroying operations on
// PseudoURL::params in /repo, so this unit keeps examples that must be recognised on every run.
// Parsed with -fsyntax-only, never linked or run.
#include <algorithm>
#include <cstdio>
#include <string>
#include <utility>
#include <vector>

namespace rkverif {
  namespace c18w {
    struct Bag
    {
      std::vector<std::pair<std::string, std::string>> items;

      // accepted: append
      void add(const std::string &a, const std::string &b)
      {
        items.push_back(std::make_pair(a, b));
      }

      // must be reported: the insertion order of entries with equal names cannot be recovered afterwards
      void sortAll()
      {
        std::sort(items.begin(), items.end());
      }

      // must be reported: the default comparator of std::pair orders equal names by value
      void stableByPair()
      {
        std::stable_sort(items.begin(), items.end());
      }

      // accepted: read-only scan
      bool has(const std::string &n)
      {
        for (auto &it : items)
          if (it.first == n)
            return true;
        return false;
      }
    };

    // ---- positive example for R-C18-10: a mantissa printed as <integer>.<integer>
    // must be reported: (s % unit + tenth / 2) / tenth reaches 10
    inline std::string scaledLossy(size_t s, size_t unit, char suffix)
    {
      const size_t tenth = unit / 10;
      const size_t whole = s / unit;
      const size_t frac  = (s % unit + tenth / 2) / tenth;
      char result[100];
      snprintf(result, 100, "%zu.%zu%c", whole, frac, suffix);
      return result;
    }

    inline std::string prettyLossy(size_t s)
    {
      if (s >= 1000000ull)
        return scaledLossy(s, 1000000ull, 'M');
      else if (s >= 1000ull)
        return scaledLossy(s, 1000ull, 'k');
      char result[100];
      snprintf(result, 100, "%zu", s);
      return result;
    }

    // accepted: rounding is applied before the split, the fraction is a remainder modulo 10
    inline std::string scaledCarry(size_t s, size_t unit, char suffix)
    {
      const size_t tenth   = unit / 10;
      const size_t rounded = (s + tenth / 2) / tenth;
      char result[100];
      snprintf(result, 100, "%zu.%zu%c", rounded / 10, rounded % 10, suffix);
      return result;
    }

    inline std::string prettyCarry(size_t s)
    {
      if (s >= 1000000ull)
        return scaledCarry(s, 1000000ull, 'M');
      else if (s >= 1000ull)
        return scaledCarry(s, 1000ull, 'k');
      char result[100];
      snprintf(result, 100, "%zu", s);
      return result;
    }

    // ---- positive example for R-C18-12: a helper that formats into a function-local static buffer
    // must be reported: `shared` is written and handed out
    inline const char *formatShared(double mantissa, char suffix)
    {
      static char shared[64];
      snprintf(shared, sizeof(shared), "%.1f%c", mantissa, suffix);
      return shared;
    }

    // accepted: a constant table is only read
    inline std::string prettyShared(double v)
    {
      static const double unit[2] = {1e6, 1e3};
      if (v >= unit[0])
        return formatShared(v / 1e6, 'M');
      return formatShared(v / unit[1], 'k');
    }
  }  // namespace c18w
}  // namespace rkverif
